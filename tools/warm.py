"""Compile (and cache on disk) the numba signatures a tier uses, one subprocess per trace dtype.
usage: warm.py [--full] [--kinds anova,tbuild,ttacc,mia] [--dtype X (internal: one dtype, in-process)]"""
import os, subprocess, sys, time
V = os.path.dirname(os.path.dirname(os.path.abspath(__file__)))
sys.path.insert(0, V)


def arg(name, default=None):
    if name in sys.argv:
        return sys.argv[sys.argv.index(name) + 1]
    return default


KINDS = arg('--kinds', 'anova,tbuild,ttacc,mia').split(',')
FULL = '--full' in sys.argv


def one(td):
    from sim import env, kinds
    import numpy as np
    env.boot()
    for prec in ('float32', 'float64'):
        tr = (np.arange(24).reshape(12, 2) % 5).astype(td)
        da = (np.arange(12).reshape(12, 1) % 3).astype('uint8')
        for kind in KINDS:
            if kind == 'mia':
                continue
            try:
                a = kinds.make(kind, prec, [0, 1, 2])
                with env.clock(env.SimClock()), env.memory(env.SimMemory()):
                    a.update(tr[:6], da[:6]); a.update(tr[6:], da[6:]); a.compute()
            except Exception as e:
                print('warm', kind, td, prec, 'failed', repr(e))
    if 'mia' in KINDS:
        for mp in (None, 'float64'):
            try:
                a = kinds.make('mia', 'float32', [0, 1, 2], {'mia_precision': mp})
                a.update(tr, da); a.compute()
            except Exception as e:
                print('warm mia failed', repr(e))
    print('warmed %s seams=%s' % (td, env.SEAMS))


if __name__ == '__main__':
    if arg('--dtype'):
        one(arg('--dtype'))
        sys.exit(0)
    t0 = time.time()
    dts = ['uint8', 'float32', 'int16', 'float64', 'uint16', 'int32', 'uint32', 'int64'] + (['int8'] if FULL else [])
    ps = [subprocess.Popen([sys.executable, os.path.abspath(__file__), '--dtype', td, '--kinds', ','.join(KINDS)]) for td in dts]
    rc = max(p.wait() for p in ps)
    print('warmed %d dtypes x 2 precisions, kinds %s in %.1fs' % (len(dts), KINDS, time.time() - t0))
    sys.exit(rc)
