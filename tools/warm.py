"""Compile (and cache on disk) the numba signatures the quick tiers use."""
import os, sys, time
V = os.path.dirname(os.path.dirname(os.path.abspath(__file__)))
sys.path.insert(0, V)
from sim import env, kinds
import numpy as np
scared = env.boot()
t0 = time.time()
full = '--full' in sys.argv
dts = ['uint8', 'float32'] + (['int8', 'int16', 'float64'] if full else [])
for td in dts:
    for prec in ('float32', 'float64'):
        tr = (np.arange(24).reshape(12, 2) % 5).astype(td)
        da = (np.arange(12).reshape(12, 1) % 3).astype('uint8')
        for kind in ('anova', 'tbuild', 'ttacc'):
            try:
                a = kinds.make(kind, prec, [0, 1, 2])
                with env.clock(env.SimClock()), env.memory(env.SimMemory()):
                    a.update(tr[:6], da[:6]); a.update(tr[6:], da[6:]); a.compute()
            except Exception as e:
                print('warm', kind, td, prec, 'failed', repr(e))
    for mp in (None, 'float64'):
        try:
            a = kinds.make('mia', 'float32', [0, 1, 2], {'mia_precision': mp})
            a.update(tr, da); a.compute()
        except Exception as e:
            print('warm mia failed', repr(e))
print('warmed in %.1fs seams=%s' % (time.time() - t0, env.SEAMS))
