"""Vet a seeded change produced by an independent sub-agent and run the checks against it.

usage: seeded.py vet <dir-with-patch.diff,demo.py,meta.json> [--checks C01,C16] [--all-checks] [--keep <name>] [--tier quick] [--runs N]
         1. scratch worktree of /repo HEAD under /var/tmp, patch applied (git apply)
         2. pinned baseline on the scratch tree (must be missing=0)            [skipped with --no-baseline]
         3. demo.py <scratch tree> must exit 1, demo.py /repo must exit 0
         4. the property's quick check (plus --checks / --all-checks) with VERIF_REPO=<scratch tree>
         5. with --keep <name>: copy patch.diff, demo.py and an extended meta.json to /verif/seeded/<name>/
       seeded.py rerun [names...]     re-run step 3+4 for everything kept under /verif/seeded (table for DESIGN.md section 10)
Scratch worktrees and their numba caches are removed right after use.  Nothing is ever applied to /repo itself.
"""
import glob
import json
import os
import shutil
import subprocess
import sys
import time

V = os.path.dirname(os.path.dirname(os.path.abspath(__file__)))
sys.path.insert(0, V)
SCRATCH = os.environ.get('VERIF_SCRATCH', '/var/tmp')
ALL = ['C01', 'C02', 'C08', 'C09', 'C11', 'C14', 'C16', 'C20']
PY = '/venv/bin/python'


def sh(cmd, **kw):
    return subprocess.run(cmd, capture_output=True, text=True, **kw)


def scratch_tree(tag, commit='HEAD'):
    d = os.path.join(SCRATCH, 'verif-seed-%s' % tag)
    sh(['git', '-C', '/repo', 'worktree', 'remove', '--force', d])
    shutil.rmtree(d, ignore_errors=True)
    r = sh(['git', '-C', '/repo', 'worktree', 'add', '--detach', d, commit])
    if r.returncode:
        raise RuntimeError(r.stderr)
    return d


def drop_tree(d):
    from sim import env
    try:
        shutil.rmtree(os.path.join(V, '.cache', 'nb', env.tree_hash(d)), ignore_errors=True)
    except Exception:
        pass
    sh(['git', '-C', '/repo', 'worktree', 'remove', '--force', d])
    shutil.rmtree(d, ignore_errors=True)
    sh(['git', '-C', '/repo', 'worktree', 'prune'])


def run_check(prop, tree, tier='quick', runs=None, seed=None):
    e = dict(os.environ, VERIF_REPO=tree)
    if seed is not None:
        e['VERIF_SEED'] = str(seed)
    cmd = [os.path.join(V, 'bin', 'check'), prop, '--tier', tier, '--no-evidence']
    if runs:
        cmd += ['--runs', str(runs)]
    t0 = time.time()
    r = sh(cmd, env=e, cwd=V)
    lines = r.stdout.splitlines()
    first = [l for l in lines if l.startswith('violation:')]
    nsig = len(first)
    tot = [l for l in lines if l.startswith('runs=')]
    return {'exit': r.returncode, 'first': first[0][:300] if first else '', 'signatures': nsig, 'summary': tot[0] if tot else '',
            'wall': round(time.time() - t0, 1), 'tail': r.stdout[-1200:] if r.returncode == 2 else ''}


def vet(src, checks, keep=None, baseline=True, tier='quick', runs=None, seed=None, demo=True):
    meta = json.load(open(os.path.join(src, 'meta.json')))
    prop = meta['property']
    tag = (keep or meta.get('id') or os.path.basename(src.rstrip('/'))).replace('/', '_')
    # a change made obsolete by a later fix: commit (its mechanism no longer exists on HEAD) is replayed on the commit it was written for
    base = meta.get('replay_on_commit') or 'HEAD'
    tree = scratch_tree(tag, base)
    clean = '/repo'
    if base != 'HEAD':
        clean = scratch_tree(tag + '-clean', base)
        print('replaying on base commit %s (obsolete on HEAD: %s)' % (base, meta.get('obsolete_reason', '')))
    rep = {'id': tag, 'property': prop, 'steps': {}}
    ok = True
    try:
        r = sh(['git', '-C', tree, 'apply', os.path.join(src, 'patch.diff')])
        if r.returncode:
            r = sh(['git', '-C', tree, 'apply', '--3way', os.path.join(src, 'patch.diff')])
        rep['steps']['apply'] = r.returncode
        if r.returncode:
            print('patch does not apply: ' + r.stderr[:400])
            return rep, False
        st = sh(['git', '-C', tree, 'diff', '--stat']).stdout.strip().splitlines()
        rep['diffstat'] = st[-1] if st else ''
        if baseline:
            b = sh([PY, os.path.join(V, 'tools', 'baseline.py'), tree])
            line = [l for l in b.stdout.splitlines() if l.startswith('stable_pass')]
            rep['steps']['baseline'] = line[0] if line else b.stdout[-300:]
            ok &= b.returncode == 0
            print('baseline on mutant tree: %s (exit %d)' % (rep['steps']['baseline'], b.returncode))
        if demo:
            d1 = sh([PY, os.path.join(src, 'demo.py'), tree], timeout=900, cwd=src)
            d0 = sh([PY, os.path.join(src, 'demo.py'), clean], timeout=900, cwd=src)
            rep['steps']['demo_mutant_exit'] = d1.returncode
            rep['steps']['demo_clean_exit'] = d0.returncode
            print('demo.py: mutant tree exit %d, clean /repo exit %d' % (d1.returncode, d0.returncode))
            if d1.returncode != 1 or d0.returncode != 0:
                ok = False
                print('  mutant stdout tail: ' + d1.stdout[-400:] + d1.stderr[-300:])
                print('  clean  stdout tail: ' + d0.stdout[-400:] + d0.stderr[-300:])
        rep['checks'] = {}
        for c in checks:
            res = run_check(c, tree, tier=tier, runs=runs, seed=seed)
            rep['checks'][c] = res
            print('check %s on mutant: exit %d  %s  %s' % (c, res['exit'], res['summary'], res['first']))
            if res['exit'] == 2:
                print(res['tail'])
        if keep and ok:
            dst = os.path.join(V, 'seeded', keep)
            os.makedirs(dst, exist_ok=True)
            shutil.copy(os.path.join(src, 'patch.diff'), os.path.join(dst, 'patch.diff'))
            shutil.copy(os.path.join(src, 'demo.py'), os.path.join(dst, 'demo.py'))
            m = {'id': keep, 'property': prop, 'summary': meta.get('summary'), 'needs': meta.get('needs'), 'files': meta.get('files'),
                 'origin': meta.get('origin') or 'independent sub-agent given only the property text and a scratch worktree (%s)' % meta.get('id'),
                 'blind_spot': meta.get('blind_spot'),
                 'author_ran': meta.get('ran'),
                 'vetted': {'base_commit': sh(['git', '-C', '/repo', 'rev-parse', '--short', 'HEAD']).stdout.strip(),
                            'baseline_on_mutant': rep['steps'].get('baseline'), 'demo_exit_mutant': d1.returncode, 'demo_exit_clean': d0.returncode},
                 'expected_checks': [c for c in checks if rep['checks'][c]['exit'] == 1] or [prop],
                 'detection': {c: {'exit': v['exit'], 'first_violation': v['first'], 'summary': v['summary']} for c, v in rep['checks'].items()}}
            json.dump(m, open(os.path.join(dst, 'meta.json'), 'w'), indent=1)
            print('kept as seeded/%s' % keep)
    finally:
        drop_tree(tree)
        if clean != '/repo':
            drop_tree(clean)
    return rep, ok


def main():
    a = sys.argv[1:]
    if not a:
        print(__doc__)
        return 2

    def opt(name, default=None):
        if name in a:
            i = a.index(name)
            v = a[i + 1]
            del a[i:i + 2]
            return v
        return default
    keep = opt('--keep')
    checks = opt('--checks')
    tier = opt('--tier', 'quick')
    runs = opt('--runs')
    seed = opt('--seed')
    allc = '--all-checks' in a
    nob = '--no-baseline' in a
    a = [x for x in a if not x.startswith('--')]
    if a[0] == 'vet':
        src = os.path.abspath(a[1])
        prop = json.load(open(os.path.join(src, 'meta.json')))['property']
        cl = ALL if allc else ((checks.split(',') if checks else []) or [prop])
        if prop in cl:
            cl = [prop] + [c for c in cl if c != prop]
        rep, ok = vet(src, cl, keep=keep, baseline=not nob, tier=tier, runs=int(runs) if runs else None, seed=seed)
        return 0 if ok else 1
    if a[0] == 'rerun':
        rows = []
        for d in sorted(glob.glob(os.path.join(V, 'seeded', '*'))):
            name = os.path.basename(d)
            if a[1:] and name not in a[1:]:
                continue
            meta = json.load(open(os.path.join(d, 'meta.json')))
            cl = checks.split(',') if checks else meta.get('expected_checks') or [meta['property']]
            rep, ok = vet(d, cl, keep=None, baseline=False, tier=tier, runs=int(runs) if runs else None, seed=seed, demo='--with-demo' in sys.argv)
            det = {c: v['exit'] for c, v in rep.get('checks', {}).items()}
            hits = {c: v['summary'] for c, v in rep.get('checks', {}).items()}
            if not seed and tier == 'quick' and not runs and '--no-update' not in sys.argv:
                # the default-seed quick-tier result is what meta.json / the DESIGN table record
                meta.setdefault('detection', {})
                for c, v in rep.get('checks', {}).items():
                    meta['detection'][c] = {'exit': v['exit'], 'first_violation': v['first'], 'summary': v['summary']}
                meta['expected_checks'] = [c for c, v in meta['detection'].items() if v['exit'] == 1] or [meta['property']]
                json.dump(meta, open(os.path.join(d, 'meta.json'), 'w'), indent=1)
            rows.append((name, meta['property'], det, hits))
            print('== %s (%s): %s' % (name, meta['property'], det))
        json.dump({'seed': seed or 0, 'tier': tier, 'rows': rows}, open(os.path.join(V, 'selftest', 'seeded_last%s.json' % ('' if not seed else '_seed' + seed)), 'w'), indent=1)
        return 0 if all(all(x == 1 for x in r[2].values()) for r in rows) else 1
    if a[0] == 'control':
        # a behaviour-preserving refactoring written by an independent sub-agent: every check must stay silent on it
        src = os.path.abspath(a[1])
        meta = json.load(open(os.path.join(src, 'meta.json')))
        tag = (keep or meta.get('id') or 'ctl').replace('/', '_')
        tree = scratch_tree('ctl-' + tag)
        ok = True
        res = {}
        try:
            r = sh(['git', '-C', tree, 'apply', os.path.join(src, 'patch.diff')])
            if r.returncode:
                r = sh(['git', '-C', tree, 'apply', '--3way', os.path.join(src, 'patch.diff')])
            if r.returncode:
                print('patch does not apply: ' + r.stderr[:300])
                return 1
            if not nob:
                b = sh([PY, os.path.join(V, 'tools', 'baseline.py'), tree])
                line = [l for l in b.stdout.splitlines() if l.startswith('stable_pass')]
                print('baseline on refactored tree: %s (exit %d)' % (line[0] if line else '?', b.returncode))
                res['baseline'] = line[0] if line else '?'
                ok &= b.returncode == 0
            sc = os.path.join(src, 'selfcheck.py')
            if os.path.exists(sc):
                s1 = sh([PY, sc, tree], timeout=1200, cwd=src)
                s0 = sh([PY, sc, '/repo'], timeout=1200, cwd=src)
                print('selfcheck.py: refactored tree exit %d, /repo exit %d' % (s1.returncode, s0.returncode))
                res['selfcheck'] = [s1.returncode, s0.returncode]
            for c in (checks.split(',') if checks else ALL):
                v = run_check(c, tree, tier=tier, runs=int(runs) if runs else None, seed=seed)
                res[c] = {'exit': v['exit'], 'summary': v['summary'], 'first_violation': v['first']}
                print('check %s on refactored tree: exit %d  %s  %s' % (c, v['exit'], v['summary'], v['first']))
                if v['exit'] == 2:
                    print(v['tail'])
                ok &= v['exit'] == 0
            if keep:
                dst = os.path.join(V, 'controls', keep)
                os.makedirs(dst, exist_ok=True)
                shutil.copy(os.path.join(src, 'patch.diff'), os.path.join(dst, 'patch.diff'))
                if os.path.exists(sc):
                    shutil.copy(sc, os.path.join(dst, 'selfcheck.py'))
                meta2 = {'id': keep, 'property': meta.get('property'), 'kind': 'behaviour-preserving refactoring (independent sub-agent)', 'summary': meta.get('summary'),
                         'files': meta.get('files'), 'author_ran': meta.get('ran'), 'base_commit': sh(['git', '-C', '/repo', 'rev-parse', '--short', 'HEAD']).stdout.strip(),
                         'results': res, 'all_checks_silent': bool(ok)}
                json.dump(meta2, open(os.path.join(dst, 'meta.json'), 'w'), indent=1)
                print('kept as controls/%s (all silent: %s)' % (keep, ok))
        finally:
            drop_tree(tree)
        return 0 if ok else 1
    if a[0] == 'table':
        print('| seeded change | property | needs | caught by (quick tier) | not caught by |')
        print('|---|---|---|---|---|')
        for d in sorted(glob.glob(os.path.join(V, 'seeded', '*'))):
            m = json.load(open(os.path.join(d, 'meta.json')))
            det = m.get('detection', {})
            yes = [c for c, v in det.items() if v['exit'] == 1]
            no = [c for c, v in det.items() if v['exit'] == 0]
            print('| `%s` | %s | %s | %s | %s |' % (m['id'], m['property'], (m.get('needs') or '').replace('|', '/').replace('\n', ' ')[:260], ', '.join(yes) or '-', ', '.join(no) or '-'))
        return 0
    print(__doc__)
    return 2


if __name__ == '__main__':
    sys.exit(main())
