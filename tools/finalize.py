"""Refresh the generated parts of the deliverables: DESIGN.md seeded table (from seeded/*/meta.json) and MANIFEST.json.
usage: finalize.py   (the evidence files are rewritten by the checks themselves: bin/check <id> --tier quick)"""
import json, os, subprocess, sys
V = os.path.dirname(os.path.dirname(os.path.abspath(__file__)))
tbl = subprocess.run([sys.executable, os.path.join(V, 'tools', 'seeded.py'), 'table'], capture_output=True, text=True).stdout
tbl = '\n'.join(l for l in tbl.splitlines() if l.startswith('|'))
p = os.path.join(V, 'DESIGN.md')
s = open(p).read()
a, b = '<!-- SEEDED-TABLE-BEGIN -->', '<!-- SEEDED-TABLE-END -->'
i, j = s.index(a) + len(a), s.index(b)
s = s[:i] + '\n' + tbl + '\n' + s[j:]
open(p, 'w').write(s)
subprocess.run([sys.executable, os.path.join(V, 'tools', 'mkmanifest.py')], check=True)
print('DESIGN.md table: %d rows' % (len(tbl.splitlines()) - 2))
