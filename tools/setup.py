"""setup_cmd: sanity-import scared from the repo and pre-warm the numba cache (offline, files on disk only)."""
import os, subprocess, sys, time
V = os.path.dirname(os.path.dirname(os.path.abspath(__file__)))
sys.path.insert(0, V)
from sim import env
t0 = time.time()
e = env.child_env({'NUMBA_NUM_THREADS': '16'})
rc = subprocess.call([sys.executable, os.path.join(V, "tools", "warm.py")], env=e, cwd=V)
print('setup: warm exit=%s %.1fs cache=%s' % (rc, time.time() - t0, e['NUMBA_CACHE_DIR']))
sys.exit(rc)
