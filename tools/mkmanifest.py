"""Regenerates MANIFEST.json (single source: this file)."""
import json, os
V = os.path.dirname(os.path.dirname(os.path.abspath(__file__)))
BUILT = os.environ.get('BUILT', 'C01,C02,C08,C09,C11,C14,C16,C20').split(',')
NA = {
 'C03': 'pure function of the multiset of processed traces (Pearson r / difference of means): no schedule, clock, I/O or fault for a simulator to decide; the history-dependent part of CPA/DPA is claimed under C01/C16',
 'C04': 'ANOVA/NICV/SNR formulas are pure numpy on the accumulators; what is schedule-dependent there (which kernel filled them, with how many workers) is claimed under C11',
 'C05': 'AES is a table-driven pure function; no state survives a call, nothing is timed, read or shared',
 'C06': 'DES/TDES is a table-driven pure function; no state, clock, I/O or fault path',
 'C07': 'selection functions are pure functions of (metadata, guesses, words); the property does not range over call histories',
 'C10': 'key schedules are pure functions of the key bytes',
 'C12': 'as stated a pure function of (data, class declaration); its only schedule-dependent mechanism (kernel 1 skips index -1, kernel 2 never matches it) runs inside the C11 workload (undeclared values, gapped and unordered class lists)',
 'C13': 'MI value and bin-edge validation are pure functions; the only nondeterminism under mia.py is the worker count, exercised by C11',
 'C15': 'models and discriminants are stateless element-wise / reduction functions',
 'C17': 'true key ranks first is a function of (key, plaintexts, noise sample); batch size / kernel choice cannot change the ranking unless C02/C11 already fail',
 'C18': 'preprocesses are stateless callables; row independence is an input-level metamorphic statement, no schedule or fault involved',
 'C19': 'signal-processing helpers are pure array functions',
}
CHECKS = {
 'C01': ('accum', 'E1 accumulator machine: seeded update/compute histories vs. one-batch twin of the same class',
         'Seeded search over batch partitions (up to 1000 rows, batches of one), compute interleavings, trace/data dtypes over their full range, memory layouts, precisions, class lists, clock scripts and worker counts; bitwise oracle in the exact regime. Sampling, not proof: a clean batch is evidence.', '4 C01, 9.3'),
 'C02': ('pipeline', 'E2 pipeline simulation over fake storage: exactly-once/in-order/own-metadata at the update boundary + one-shot twin',
         'Seeded search over (N, batch rule, frame incl. unsorted/negative index lists, preprocess chain, word selection, class, direction, convergence step, multi-run) with the recorded update history checked post hoc against independently computed rows and intermediate values, and results against the standalone distinguisher.', '4 C02, 9.3'),
 'C08': ('pipeline', 'E2 pipeline simulation: convergence columns vs. fresh attacks on observed batch boundaries (assignment search)',
         'Seeded search over (N, step, batch rule, runs, NaN-producing metadata); each column must equal the one-shot scores on an observed prefix under a strictly increasing, step-spaced assignment.', '4 C08'),
 'C09': ('ttest', 'E3 deterministic thread simulation (baton scheduler at line granularity) with storage/callback fault injection',
         'Seeded search over interleavings of the two accumulator threads and the main thread (9 scheduling policies incl. PCT), batch rules, thread failures in one or several runs, batch-rule flips, stalls; Welch reference, schedule independence, failure re-raised, conservation after a failure.', '4 C09, 9.3'),
 'C11': ('accum', 'E1 under scripted process_time (kernel schedule) and worker-count sequences: all environments must agree',
         'Same history executed under 4-8 simulated environments (every kernel sequence reachable by the code is producible by the scripted clock; worker counts 1..16); bitwise in the exact regime (incl. narrow integer and float32 traces at float64 precision), requested-precision tolerance otherwise.', '4 C11'),
 'C14': ('pipeline', 'E2 template lifecycle (refused run before build, build, match) vs. small executable reference model',
         'Seeded search over building/matching sets (classes with 0/1/many building traces), batch rules, class lists, value dtypes, precisions, second build, storage fault during build, sibling objects; independent numpy float64 model of templates, pooled covariance and scores.', '4 C14, 9.1, 9.3'),
 'C16': ('accum', 'E1 + E2 with injected refusals (13 refusal kinds incl. low memory and refusal inside the compiled kernel; storage/callback faults; refusals inside update during run): refused call leaves no trace vs. accepted-only twin',
         'Seeded search over histories with refused calls at any position incl. first; count, every later result and (run level) the convergence trace compared with a twin that only saw the accepted calls.', '4 C16, 9.3'),
 'C20': ('sync', 'E4 synchronizer simulation: accept/raise/None fault sequences vs. list-filter reference model over a real ETS file',
         'Seeded search over fault patterns (incl. warning-threshold run lengths), metadata kinds, output path kinds, returned length/dtype, check() before run(); output rows, order, metadata and counters vs. model.', '4 C20'),
}
NOTE = 'Trusted base: the harness (generator, oracles, scheduler), numpy, numba, estraces, CPython 3.12. Twin oracles compare scared with scared; a numba kernel call is atomic; see DESIGN.md 2.5/4.4 for bounds and blind spots.'
m = {
 'version': 1,
 'setup_cmd': '/venv/bin/python /verif/tools/setup.py',
 'hooks': {'guard': 'SCARED_VERIF', 'enable': 'none needed: all seams are existing interfaces patched from outside (DESIGN.md 2.2); checks export SCARED_VERIF=1 anyway',
           'baseline_off_cmd': 'cd /repo && env -u SCARED_VERIF /venv/bin/python -m pytest -ra -q -p no:cacheprovider --timeout=900 --continue-on-collection-errors',
           'source_commits': [], 'add_only': True},
 'engines': [
  {'name': 'accum', 'path': 'sim/engines/accum.py', 'serves_properties': ['C01', 'C11', 'C16'], 'kind_free_text': 'deterministic simulation: single-threaded accumulator machine under scripted clock/memory/worker counts with refused-call injection'},
  {'name': 'pipeline', 'path': 'sim/engines/pipeline.py', 'serves_properties': ['C02', 'C08', 'C14', 'C16'], 'kind_free_text': 'deterministic simulation: whole analysis over in-process fake storage with recorded update history and storage/callback faults'},
  {'name': 'ttest', 'path': 'sim/engines/ttest.py', 'serves_properties': ['C09'], 'kind_free_text': 'deterministic simulation: baton-passing scheduler over real threads (sys.settrace pre-emption points), storage fault injection'},
  {'name': 'sync', 'path': 'sim/engines/sync.py', 'serves_properties': ['C20'], 'kind_free_text': 'deterministic simulation: Synchronizer loop under accept/raise/None fault sequences'},
 ],
 'checks': [],
 'not_applicable': [{'property_id': k, 'reason': v} for k, v in sorted(NA.items())],
 'notes': 'Technique: deterministic simulation with fault injection (seeded search; one integer = one execution; replay files). Exit 2 = HARNESS-ERROR. Self-tests: selftest/determinism.py, selftest/sensitivity.py (own mutants + behaviour-preserving controls), selftest/findings.py (fixed defects replay on the pre-fix trees), tools/seeded.py rerun (independent seeded changes, DESIGN.md section 10). Seven genuine defects were found and repaired by seven fix: commits in /repo (known_findings.json; DESIGN.md 9.1).',
}
m['engines'] = [e for e in m['engines'] if any(p in BUILT for p in e['serves_properties'])]
for pid in sorted(CHECKS):
    if pid not in BUILT:
        continue
    eng, tech, text, ref = CHECKS[pid]
    m['checks'].append({
        'property_id': pid,
        'quick_cmd': '/verif/bin/check %s --tier quick' % pid,
        'thorough_cmd': '/verif/bin/check %s --tier thorough' % pid,
        'evidence_file': '/verif/evidence/%s.json' % pid,
        'replay_cmd_template': '/venv/bin/python /verif/sim/replay.py {path}',
        'engine': eng,
        'level_claimed': {'category': 'exploration', 'text': text, 'design_ref': 'DESIGN.md section ' + ref},
        'level_note': NOTE,
        'technique': 'deterministic simulation with fault injection: ' + tech,
    })
pending = [p for p in sorted(CHECKS) if p not in BUILT]
if pending:
    m['notes'] += ' Checks still being built (claimed in DESIGN.md, not yet registered): ' + ', '.join(pending) + '.'
json.dump(m, open(os.path.join(V, 'MANIFEST.json'), 'w'), indent=1)
print('wrote MANIFEST.json with checks', [c['property_id'] for c in m['checks']])
