"""Run the repository's pinned baseline (guard off) and compare with BASELINE.json's stable_pass list.
usage: baseline.py [repo_dir]   exit 0 iff every stable_pass test passes."""
import json, os, subprocess, sys, tempfile
import xml.etree.ElementTree as ET
repo = sys.argv[1] if len(sys.argv) > 1 else '/repo'
base = json.load(open('/root/.vp/BASELINE.json'))
out = tempfile.mkdtemp(prefix='baseline_', dir='/var/tmp')
xml = os.path.join(out, 'junit.xml')
env = dict(os.environ)
env.pop('SCARED_VERIF', None)
cmd = ['/venv/bin/python', '-m', 'pytest', '-ra', '-q', '-p', 'no:cacheprovider', '--timeout=900', '--continue-on-collection-errors', '--junitxml=' + xml]
p = subprocess.run(cmd, cwd=repo, env=env, capture_output=True, text=True)
passed = set()
for tc in ET.parse(xml).getroot().iter('testcase'):
    bad = any(ch.tag in ('failure', 'error', 'skipped') for ch in tc)
    if not bad:
        passed.add(tc.get('classname') + '::' + tc.get('name'))
stable = set(base['stable_pass'])
missing = sorted(stable - passed)
print('stable_pass=%d passed_now=%d missing=%d' % (len(stable), len(passed), len(missing)))
for m in missing[:30]:
    print('  NOT PASSING:', m)
print(p.stdout.strip().splitlines()[-1] if p.stdout.strip() else '')
import shutil; shutil.rmtree(out, ignore_errors=True)
sys.exit(1 if missing else 0)
