"""Self-check for refactoring R-C01 (property C01: batch-split / compute-history invariance).

usage: selfcheck.py <path-to-source-tree> [--dump results.npz]

Exercises, through the public API only (standalone distinguishers + TTestThreadAccumulator):
  CPA, alternative CPA, DPA, ANOVA, NICV, SNR, MIA (fixed bin edges), t-test accumulator
on several inputs (integer / float traces, float32 / float64 precision, 2-D and 3-D data),
several ordered splits in consecutive non-empty batches (one batch, all batches of one trace, ...)
and several interleavings of compute() calls. It checks that:
  1. the result agrees with an independent float64 computation from the raw data,
  2. every history gives the same result as the one-batch history (bit-identical when traces are
     small integers, so that every running sum is exactly representable),
  3. compute() is idempotent and never alters the public accumulators (values and shapes),
  4. results have the documented shape and dtype behaviour is stable.
Exit status 0 iff everything is as expected. With --dump, all one-batch results are saved so that two
trees can be compared bit for bit.
"""
import sys
import os
import warnings

tree = os.path.abspath(sys.argv[1])
sys.path.insert(0, tree)
import numpy as np  # noqa: E402
import scared  # noqa: E402

assert os.path.abspath(scared.__file__).startswith(tree + os.sep), scared.__file__
warnings.simplefilter('ignore', RuntimeWarning)

FAILURES = []
DUMP = {}


def fail(msg):
    FAILURES.append(msg)
    print('FAIL:', msg)


def same(a, b):
    return a.shape == b.shape and a.dtype == b.dtype and np.array_equal(a, b, equal_nan=True)


def close(a, b, tol):
    a = np.asarray(a, dtype='float64')
    b = np.asarray(b, dtype='float64')
    if a.shape != b.shape:
        return False
    if not np.array_equal(np.isnan(a), np.isnan(b)):
        return False
    return np.allclose(a, b, rtol=tol, atol=tol, equal_nan=True)


# ---------------------------------------------------------------- independent references (float64)

def ref_cpa(traces, data):
    x = traces.astype('float64')
    y = data.reshape(len(data), -1).astype('float64')
    xc = x - x.mean(0)
    yc = y - y.mean(0)
    num = yc.T @ xc
    den = np.sqrt((yc ** 2).sum(0))[:, None] * np.sqrt((xc ** 2).sum(0))[None, :]
    return num / den


def ref_dpa(traces, data):
    x = traces.astype('float64')
    y = data.reshape(len(data), -1)
    out = np.empty((y.shape[1], x.shape[1]))
    for w in range(y.shape[1]):
        out[w] = x[y[:, w] == 1].mean(0) - x[y[:, w] == 0].mean(0)
    return out


def _groups(x, yw, partitions):
    return [x[yw == p] for p in partitions if np.any(yw == p)]


def ref_partitioned(kind, traces, data, partitions):
    x = traces.astype('float64')
    y = data.reshape(len(data), -1)
    out = np.empty((y.shape[1], x.shape[1]))
    for w in range(y.shape[1]):
        groups = _groups(x, y[:, w], partitions)
        allx = np.concatenate(groups)
        n = len(allx)
        k = len(groups)
        mean = allx.mean(0)
        means = np.array([g.mean(0) for g in groups])
        counts = np.array([len(g) for g in groups], dtype='float64')[:, None]
        within = np.array([((g - g.mean(0)) ** 2).sum(0) for g in groups])
        if kind == 'anova':
            out[w] = ((counts * (means - mean) ** 2).sum(0) / (k - 1)) / (within.sum(0) / (n - k))
        elif kind == 'nicv':
            out[w] = (counts / n * (means - mean) ** 2).sum(0) / allx.var(0)
        elif kind == 'snr':
            out[w] = ((means - mean) ** 2).sum(0) / (within / counts).sum(0)
    return out


def ref_mia(traces, data, partitions, edges):
    x = traces.astype('float64')
    y = data.reshape(len(data), -1)
    edges = np.asarray(edges, dtype='float64')
    out = np.zeros((y.shape[1], x.shape[1]))

    def plogp(h):
        tot = h.sum()
        p = h / tot if tot else h * 0.
        p = p[p > 0]
        return (p * np.log(p)).sum()

    for w in range(y.shape[1]):
        for t in range(x.shape[1]):
            inside = (x[:, t] >= edges[0]) & (x[:, t] <= edges[-1])
            bg = np.histogram(x[inside, t], bins=edges)[0].astype('float64')
            acc = 0.
            for p in partitions:
                sel = inside & (y[:, w] == p)
                h = np.histogram(x[sel, t], bins=edges)[0].astype('float64')
                acc += (h.sum() / bg.sum()) * (plogp(h) - plogp(bg)) if h.sum() else 0.
                # pdf of an empty class is all zero -> its "real" term is 0, expected term weighted by 0.
            out[w, t] = acc
    return out


# ---------------------------------------------------------------- histories

def splits_for(n, rng):
    yield [n]
    yield [1] * n
    yield [1, n - 1]
    yield [n - 1, 1]
    cuts = np.sort(rng.choice(np.arange(1, n), size=min(4, n - 1), replace=False))
    yield list(np.diff(np.concatenate([[0], cuts, [n]])))


def run_history(factory, traces, data, split, compute_after, accumulators):
    """Feeds batches, calling compute() after the batches whose index is in compute_after.

    Returns the final result and checks compute idempotence / accumulators preservation.
    """
    d = factory()
    start = 0
    for i, size in enumerate(split):
        d.update(traces[start:start + size], data[start:start + size])
        start += size
        if i in compute_after:
            before = {a: np.array(getattr(d, a), copy=True) for a in accumulators}
            r1 = d.compute()
            r2 = d.compute()
            if not same(np.asarray(r1), np.asarray(r2)):
                fail(f'{type(d).__name__}: compute() twice differs (split {split}, after batch {i})')
            for a in accumulators:
                now = getattr(d, a)
                if now.shape != before[a].shape or now.dtype != before[a].dtype or not np.array_equal(now, before[a]):
                    fail(f'{type(d).__name__}: compute() altered accumulator {a} (split {split}, after batch {i})')
    assert start == len(traces)
    if d.processed_traces != len(traces):
        fail(f'{type(d).__name__}: processed_traces {d.processed_traces} != {len(traces)}')
    return d.compute(), d


def check_distinguisher(name, factory, traces, data, reference, accumulators, exact, tol, rng, expected_shape):
    n = len(traces)
    one, d_one = run_history(factory, traces, data, [n], set(), accumulators)
    one = np.asarray(one)
    DUMP[name] = one
    if one.shape != expected_shape:
        fail(f'{name}: result shape {one.shape}, expected {expected_shape}')
    if reference is not None and not close(one.reshape(reference.shape), reference, tol):
        fail(f'{name}: one-batch result differs from independent computation '
             f'(max abs diff {np.nanmax(np.abs(one.reshape(reference.shape) - reference))})')
    count = 0
    for split in splits_for(n, rng):
        nb = len(split)
        schedules = [set(), set(range(nb)), set(rng.choice(nb, size=max(1, nb // 3), replace=False).tolist())]
        if nb == 2:
            schedules = [{0}, {0, 1}]
        for compute_after in schedules:
            res, d = run_history(factory, traces, data, split, compute_after, accumulators)
            res = np.asarray(res)
            count += 1
            if res.shape != one.shape or res.dtype != one.dtype:
                fail(f'{name}: shape/dtype changed with history {split} / {sorted(compute_after)}')
                continue
            if exact:
                if not same(res, one):
                    fail(f'{name}: result not bit-identical to one batch for split {split}, computes after {sorted(compute_after)}')
                for a in accumulators:
                    if not same(np.asarray(getattr(d, a)), np.asarray(getattr(d_one, a))):
                        fail(f'{name}: accumulator {a} differs from one batch for split {split}')
            elif not close(res, one, tol):
                fail(f'{name}: result differs from one batch for split {split}, computes after {sorted(compute_after)}')
    return count


# ---------------------------------------------------------------- t-test accumulator

def check_ttest(name, traces, precision, exact, tol, rng):
    from scared.ttest import TTestThreadAccumulator, TTestError
    n = len(traces)
    acc = TTestThreadAccumulator(precision)
    try:
        acc.compute()
        fail(f'{name}: compute() without traces did not raise')
    except TTestError:
        pass
    acc.update(traces)
    acc.compute()
    DUMP[name + '/mean'] = acc.mean
    DUMP[name + '/var'] = acc.var
    x = traces.astype('float64')
    if not close(acc.mean, x.mean(0), tol) or not close(acc.var, x.var(0), tol * max(1., float(np.abs(x).max()) ** 2)):
        fail(f'{name}: mean/var differ from numpy')
    if acc.mean.dtype != np.dtype(precision) or acc.var.dtype != np.dtype(precision):
        fail(f'{name}: mean/var dtype {acc.mean.dtype}/{acc.var.dtype}')
    count = 0
    for split in splits_for(n, rng):
        nb = len(split)
        for compute_after in [set(), set(range(nb)), {nb // 2}]:
            a = TTestThreadAccumulator(precision)
            start = 0
            for i, size in enumerate(split):
                a.update(traces[start:start + size])
                start += size
                if i in compute_after:
                    s0, s1 = a.sum.copy(), a.sum_squared.copy()
                    a.compute()
                    m1, v1 = a.mean.copy(), a.var.copy()
                    a.compute()
                    if not (same(m1, a.mean) and same(v1, a.var)):
                        fail(f'{name}: compute twice differs')
                    if not (same(s0, a.sum) and same(s1, a.sum_squared)):
                        fail(f'{name}: compute altered sums')
            a.compute()
            count += 1
            if a.processed_traces != n:
                fail(f'{name}: processed_traces {a.processed_traces}')
            if exact:
                ok = same(a.mean, acc.mean) and same(a.var, acc.var) and same(a.sum, acc.sum) and same(a.sum_squared, acc.sum_squared)
            else:
                ok = close(a.mean, acc.mean, tol) and close(a.var, acc.var, tol * max(1., float(np.abs(x).max()) ** 2))
            if not ok:
                fail(f'{name}: history {split} / {sorted(compute_after)} differs from one batch')
    return count


# ---------------------------------------------------------------- main

def main():
    rng = np.random.default_rng(20240901)
    total = 0
    n, t = 23, 5
    # (label, traces, precision, exact sums?, tolerance)
    int_traces_u8 = rng.integers(0, 16, (n, t)).astype('uint8')
    int_traces_i16 = rng.integers(-12, 13, (n, t)).astype('int16')
    flt_traces_32 = rng.normal(1.5, 2., (n, t)).astype('float32')
    flt_traces_64 = rng.normal(-0.5, 3., (n, t))
    inputs = [
        ('u8/f32', int_traces_u8, 'float32', True, 2e-3),
        ('i16/f64', int_traces_i16, 'float64', True, 1e-9),
        ('f32/f32', flt_traces_32, 'float32', False, 5e-3),
        ('f64/f64', flt_traces_64, 'float64', False, 1e-9),
    ]
    words = 3
    for label, traces, precision, exact, tol in inputs:
        # --- CPA (2-D data), data correlated with first sample so that results are not all noise
        data = rng.integers(0, 9, (n, words)).astype('uint8')
        data[:, 0] = (np.abs(traces[:, 0]).astype('int64') % 9).astype('uint8')
        ref = ref_cpa(traces, data)
        for cls in ('CPADistinguisher', 'CPAAlternativeDistinguisher'):
            total += check_distinguisher(
                f'{cls}/{label}', lambda cls=cls: getattr(scared, cls)(precision=precision), traces, data, ref,
                ['ex', 'ex2', 'ey', 'ey2', 'exy'], exact, tol, rng, (words, t))
        # CPA with a constant sample and a constant word: nan (never inf) expected, stable over histories
        traces_c = traces.copy()
        traces_c[:, 1] = 3
        data_c = data.copy()
        data_c[:, 1] = 2
        total += check_distinguisher(
            f'CPADistinguisher/const/{label}', lambda: scared.CPADistinguisher(precision=precision), traces_c, data_c, None,
            ['ex', 'ex2', 'ey', 'ey2', 'exy'], exact, tol, rng, (words, t))
        r = np.asarray(DUMP[f'CPADistinguisher/const/{label}'])
        if np.isinf(r).any() or not np.isnan(r[1]).all() or not np.isnan(r[:, 1]).all():
            fail(f'CPADistinguisher/const/{label}: nan/inf handling changed')
        # 3-D data
        data3 = rng.integers(0, 9, (n, 2, 2)).astype('uint8')
        total += check_distinguisher(
            f'CPADistinguisher/3d/{label}', lambda: scared.CPADistinguisher(precision=precision), traces, data3,
            ref_cpa(traces, data3), ['ex', 'ex2', 'ey', 'ey2', 'exy'], exact, tol, rng, (2, 2, t))

        # --- DPA
        bits = rng.integers(0, 2, (n, words)).astype('uint8')
        bits[:, 0] = (np.abs(traces[:, 0]).astype('int64') % 2).astype('uint8')
        bits[:2, :] = [[0] * words, [1] * words]
        total += check_distinguisher(
            f'DPADistinguisher/{label}', lambda: scared.DPADistinguisher(precision=precision), traces, bits, ref_dpa(traces, bits),
            ['accumulator_traces', 'accumulator_ones', 'processed_ones'], exact, tol, rng, (words, t))

        # --- partitioned: 4 partitions (both kernels eligible) and 12 partitions (generic kernel), with an empty class
        for nparts in (4, 12):
            partitions = list(range(nparts))
            pdata = rng.integers(0, nparts - 1, (n, words)).astype('uint8')  # last class stays empty
            pdata[:, 0] = (np.abs(traces[:, 0]).astype('int64') % (nparts - 1)).astype('uint8')
            for kind, cls in (('anova', 'ANOVADistinguisher'), ('nicv', 'NICVDistinguisher'), ('snr', 'SNRDistinguisher')):
                if nparts == 12 and label not in ('u8/f32', 'f64/f64'):
                    continue  # keeps the run short
                total += check_distinguisher(
                    f'{cls}/{nparts}/{label}',
                    lambda cls=cls: getattr(scared, cls)(partitions=partitions, precision=precision),
                    traces, pdata, ref_partitioned(kind, traces, pdata, partitions),
                    ['sum', 'sum_square', 'counters'], exact, tol * 10, rng, (words, t))
        pdata3 = rng.integers(0, 4, (n, 2, 2)).astype('uint8')
        total += 0 if label in ('i16/f64', 'f32/f32') else check_distinguisher(
            f'NICVDistinguisher/3d/{label}', lambda: scared.NICVDistinguisher(partitions=range(4), precision=precision),
            traces, pdata3, ref_partitioned('nicv', traces, pdata3, range(4)),
            ['sum', 'sum_square', 'counters'], exact, tol * 10, rng, (2, 2, t))

        # --- MIA with fixed bin edges (some traces fall outside the edges); counts are always exact
        lo, hi = float(traces.min()), float(traces.max())
        edges = np.linspace(lo + (hi - lo) * 0.1, hi - (hi - lo) * 0.05, 6)
        mdata = rng.integers(0, 4, (n, words)).astype('uint8')
        mdata[:, 0] = (np.abs(traces[:, 0]).astype('int64') % 3).astype('uint8')  # class 3 empty for word 0
        total += check_distinguisher(
            f'MIADistinguisher/{label}', lambda: scared.MIADistinguisher(bin_edges=edges, partitions=range(4)),
            traces, mdata, ref_mia(traces, mdata, range(4), edges), ['accumulators'], True, 1e-9, rng, (words, t))

        # --- t-test accumulator
        total += check_ttest(f'TTestThreadAccumulator/{label}', traces, precision, exact, tol, rng)

    # MIA with a float precision for the histograms, and an all-outside sample (nan expected, stable)
    traces = rng.normal(0, 1, (n, t)).astype('float32')
    traces[:, 2] = 50.
    mdata = rng.integers(0, 3, (n, 2)).astype('uint8')
    edges = np.linspace(-2, 2, 5)
    total += check_distinguisher(
        'MIADistinguisher/float32-histograms', lambda: scared.MIADistinguisher(bin_edges=edges, partitions=range(3), precision='float32'),
        traces, mdata, None, ['accumulators'], True, 1e-6, rng, (2, t))
    r = DUMP['MIADistinguisher/float32-histograms']
    ref = ref_mia(np.delete(traces, 2, axis=1), mdata, range(3), edges)
    if not np.isnan(r[:, 2]).all() or not close(np.delete(r, 2, axis=1), ref, 1e-5):
        fail('MIADistinguisher/float32-histograms: unexpected result')

    print(f'{total} histories checked over {len(DUMP)} cases; {len(FAILURES)} failure(s)')
    if '--dump' in sys.argv:
        np.savez(sys.argv[sys.argv.index('--dump') + 1], **{k.replace('/', '|'): v for k, v in DUMP.items()})
    return 1 if FAILURES else 0


if __name__ == '__main__':
    sys.exit(main())
