"""Self-check for refactoring R-C02 (container batching / batch-size rules / selection function call).

usage: /venv/bin/python selfcheck.py <path-to-source-tree>

Everything is exercised through the public API and compared with independent numpy computations,
so the program exits 0 both on a clean tree and on the refactored tree.
"""
import itertools
import math
import sys

tree = sys.argv[1] if len(sys.argv) > 1 else '.'
sys.path.insert(0, tree)

import numpy as np  # noqa: E402
import scared  # noqa: E402

assert scared.__file__.startswith(tree.rstrip('/')), (scared.__file__, tree)

FAILURES = []
CHECKS = [0]


def check(cond, msg):
    CHECKS[0] += 1
    if not cond:
        FAILURES.append(msg)
        print('FAIL:', msg)


def make_ths(n, size, seed, dtype='uint8'):
    rng = np.random.RandomState(seed)
    samples = rng.randint(0, 255, (n, size)).astype(dtype)
    plaintext = rng.randint(0, 255, (n, 4), dtype='uint8')
    key = np.tile(np.arange(4, dtype='uint8'), (n, 1))
    return scared.traces.formats.read_ths_from_ram(samples=samples, plaintext=plaintext, key=key), samples, plaintext


@scared.preprocess
def square(traces):
    return traces.astype('float64') ** 2


@scared.preprocess
def minus_row_mean_floor(traces):
    return traces - np.floor(traces.mean(axis=1, keepdims=True))


@scared.preprocess
def drop_first(traces):
    return traces[:, 1:]


def ref_samples(samples, frame, preprocesses):
    out = samples[:, frame]
    for p in preprocesses:
        out = p(out)
    return out


FRAMES = [None, ..., slice(2, 11), slice(None, None, 3), [0, 5, 3, 12], np.array([7, 1, 1, 9]), range(4, 9)]
CHAINS = [[], [square], [square, minus_row_mean_floor], [drop_first, square], [minus_row_mean_floor, drop_first]]


# --------------------------------------------------------------------------------------
# 1. batches(): cover every trace once, in order, paired with its own metadata
# --------------------------------------------------------------------------------------
def check_batches():
    for n, bs in [(42, 41), (42, 42), (42, 43), (42, 1), (42, 5), (42, 7), (1, 3), (1, 1), (40, 8), (17, 16), (17, 1000)]:
        ths, samples, plaintext = make_ths(n, 13, seed=n * 100 + bs)
        for frame, chain in itertools.product(FRAMES, CHAINS):
            c = scared.Container(ths, frame=frame, preprocesses=list(chain))
            ef = ... if frame is None else frame
            expected = ref_samples(samples, ef, chain)
            batches = c.batches(batch_size=bs)
            nb = math.ceil(n / bs)
            tag = f'n={n} bs={bs} frame={frame!r} chain={[p.__name__ for p in chain]}'
            check(len(batches) == nb, f'len(batches) {tag}')
            for _ in range(2):  # iterable can be iterated several times
                lst = list(batches)
                check(len(lst) == nb, f'number of batches {tag}')
                check([len(b) for b in lst] == [min(bs, n - i * bs) for i in range(nb)], f'batch lengths {tag}')
                got = np.concatenate([np.asarray(b.samples) for b in lst], axis=0)
                check(got.shape == expected.shape and np.array_equal(got, expected), f'samples cover {tag}')
                check(got.dtype == expected.dtype, f'samples dtype {tag}')
                gp = np.concatenate([np.asarray(b.metadatas['plaintext']) for b in lst], axis=0)
                check(np.array_equal(gp, plaintext), f'metadata pairing {tag}')
            # indexing
            for i in range(nb):
                b = batches[i]
                check(np.array_equal(b.samples, expected[i * bs:(i + 1) * bs]), f'getitem {i} {tag}')
                check(np.array_equal(b.metadatas['plaintext'], plaintext[i * bs:(i + 1) * bs]), f'getitem meta {i} {tag}')
                bn = batches[i - nb]
                check(np.array_equal(bn.samples, expected[i * bs:(i + 1) * bs]), f'negative getitem {i} {tag}')
            for bad in (nb, -nb - 1):
                try:
                    batches[bad]
                    check(False, f'IndexError expected for index {bad} {tag}')
                except IndexError:
                    check(True, '')
    ths, _, _ = make_ths(20, 8, 1)
    c = scared.Container(ths)
    for bad, exc in [('foo', TypeError), (-3, ValueError), (2.5, TypeError)]:
        try:
            c.batches(batch_size=bad)
            check(False, f'batches({bad!r}) should raise {exc.__name__}')
        except exc:
            check(True, '')
    # numpy integer batch sizes are accepted
    check([len(b) for b in c.batches(batch_size=np.int64(8))] == [8, 8, 4], 'numpy int batch size')
    # batch_size 0 / None -> default rule
    scared.set_batch_size(6)
    try:
        check([len(b) for b in c.batches()] == [6, 6, 6, 2], 'default rule when batch_size is None')
        check([len(b) for b in c.batches(batch_size=0)] == [6, 6, 6, 2], 'default rule when batch_size is 0')
    finally:
        scared.set_batch_size()


# --------------------------------------------------------------------------------------
# 2. batch-size rules and trace_size
# --------------------------------------------------------------------------------------
def model_floor_msd(x):
    if x < 1:
        return 0
    s = str(int(x))
    return int(s[0]) * 10 ** (len(s) - 1)


def model_table(table, size):
    for i in range(len(table)):
        low = table[i][0]
        high = table[i + 1][0] if i + 1 < len(table) else float('inf')
        if low <= size < high:
            return table[i][1]
    return None


def check_batch_size_rules():
    try:
        ths, samples, _ = make_ths(30, 1200, 5)
        ths16, _, _ = make_ths(30, 700, 6, dtype='int16')

        @scared.preprocess
        def widen(traces):
            return np.tile(traces, (1, 5))

        cases = [
            (scared.Container(ths), 1200, 1200, 1),
            (scared.Container(ths, frame=slice(0, 100)), 100, 100, 1),
            (scared.Container(ths, frame=list(range(50))), 50, 50, 1),
            (scared.Container(ths, preprocesses=[drop_first]), 1199, 1200, 1),
            (scared.Container(ths, frame=slice(0, 400), preprocesses=widen), 2000, 400, 1),
            (scared.Container(ths16, frame=slice(0, 600)), 600, 600, 2),
        ]
        tables = [
            None,
            [(0, 500), (1000, 100), (2000, 50)],
            ((0, 9), (101, 8), (1200, 7), (1201, 6)),
            [[0, 3], [60, 4]],
            [(0, 11)],
            [(100, 5), (1000, 6)],      # nothing defined below 100
            [(500, 5), (0, 6), (5000, 7)],  # not sorted: first matching interval wins
        ]
        for c, tsize, isize, itemsize in cases:
            check(c.trace_size == tsize, f'trace_size {tsize} got {c.trace_size}')
            check(c.trace_size == tsize, f'trace_size (cached) {tsize} got {c.trace_size}')
            for v in (1, 7, 42, 42_000):
                scared.set_batch_size(v)
                check(c.batch_size == v and isinstance(c.batch_size, int), f'int rule {v}')
            for t in tables:
                scared.set_batch_size(t)
                table = scared.container._ORIGINAL_BATCH_SIZES if t is None else t
                check(isinstance(scared.Container._BATCH_SIZE, list), 'table stored as list')
                exp = model_table(table, max(tsize, isize))
                check(c.batch_size == exp, f'table rule {t} size={max(tsize, isize)}: got {c.batch_size}, expected {exp}')
            for mb in (0.25, 0.75, 0.000001, 1.0, 3.3, 0.01, 12.5, 100.0, 0.0011444091796875):
                scared.set_batch_size(mb)
                exp = max(model_floor_msd(int(mb * 2**20) / (isize * itemsize)), 10)
                check(c.batch_size == exp and isinstance(c.batch_size, int), f'MB rule {mb} isize={isize}: got {c.batch_size}, expected {exp}')
        scared.set_batch_size()
        check(scared.Container(ths, frame=3).trace_size == 1, 'trace_size with int frame')
        check(isinstance(scared.Container._compute_batch_size({}, trace_size=20), int), 'static call of _compute_batch_size')
        for bad, exc in [('foo', TypeError), (0, ValueError), (-1.5, ValueError), ([(1, 2), 'foo'], ValueError), ([(1, 2), (1.0, 2)], ValueError)]:
            try:
                scared.set_batch_size(bad)
                check(False, f'set_batch_size({bad!r}) should raise')
            except exc:
                check(True, '')
        for bad in ('foo', ['foo', 1], 12, (square,)):
            try:
                scared.Container(ths, preprocesses=bad)
                check(False, f'Container(preprocesses={bad!r}) should raise TypeError')
            except TypeError as e:
                check(type(bad).__name__ in str(e), f'preprocesses error message mentions the given type: {e}')
        plist = [square]
        c = scared.Container(ths, preprocesses=plist)
        check(c.preprocesses is plist, 'preprocesses list kept as given')
        check(scared.Container(ths, preprocesses=square).preprocesses == [square], 'single preprocess is wrapped into a list')
        check(isinstance(str(c), str) and 'square' in str(c), 'str(container)')
    finally:
        scared.set_batch_size()


# --------------------------------------------------------------------------------------
# 3. selection function call: arguments history and words selection
# --------------------------------------------------------------------------------------
def check_selection_function():
    rng = np.random.RandomState(3)
    pt = rng.randint(0, 255, (9, 6), dtype='uint8')
    ct = rng.randint(0, 255, (9, 6), dtype='uint8')
    word_sets = [None, ..., 2, -1, slice(1, 4), slice(None, None, 2), [0, 5, 5, 1], np.array([3, 0]), np.array([4], dtype='int64'), [2]]
    for words in word_sets:
        idx = slice(None) if (words is None or words is ...) else (np.array(words, dtype='uint8') if isinstance(words, list) else words)

        @scared.selection_function(words=words)
        def xor(plaintext, ciphertext):
            return np.bitwise_xor(plaintext, ciphertext)

        exp = np.bitwise_xor(pt, ct)[..., idx]
        got = xor(plaintext=pt, ciphertext=ct, unused=np.zeros(3))
        check(got.shape == exp.shape and np.array_equal(got, exp), f'sf words {words!r}')

        @scared.attack_selection_function(words=words, guesses=range(5))
        def att(plaintext, guesses):
            out = np.empty((plaintext.shape[0], len(guesses), plaintext.shape[1]), dtype='uint8')
            for g in guesses:
                out[:, g, :] = np.bitwise_xor(plaintext, g)
            return out

        full = np.stack([np.bitwise_xor(pt, g) for g in range(5)], axis=1)
        exp = full[..., idx]
        got = att(plaintext=pt)
        check(got.shape == exp.shape and np.array_equal(got, exp), f'attack sf words {words!r}')
        # second call with other data: guesses are remembered, plaintext is replaced
        got = att(plaintext=ct[:4])
        exp = np.stack([np.bitwise_xor(ct[:4], g) for g in range(5)], axis=1)[..., idx]
        check(got.shape == exp.shape and np.array_equal(got, exp), f'attack sf second call words {words!r}')

    @scared.selection_function
    def two(plaintext, ciphertext):
        return np.bitwise_xor(plaintext, ciphertext)

    try:
        two(plaintext=pt)
        check(False, 'missing argument should raise')
    except scared.selection_functions.base.SelectionFunctionError as e:
        check("'ciphertext'" in str(e) and "['plaintext']" in str(e), f'missing argument message: {e}')
    check(np.array_equal(two(plaintext=pt, ciphertext=ct), pt ^ ct), 'sf with all arguments')
    # history: an argument missing from a later call keeps its previous value
    check(np.array_equal(two(plaintext=ct), ct ^ ct), 'sf remembers previous arguments')
    check(np.array_equal(two(ciphertext=pt), ct ^ pt), 'sf remembers previous arguments (2)')
    try:
        two(plaintext=pt[:4])  # output has 4 rows... but remembered ciphertext has 9 -> numpy broadcast error or shape error
        check(False, 'inconsistent arguments should raise')
    except (ValueError, scared.selection_functions.base.SelectionFunctionError):
        check(True, '')

    @scared.selection_function
    def bad_shape(plaintext):
        return plaintext[:-1]

    try:
        bad_shape(plaintext=pt)
        check(False, 'bad output shape should raise')
    except scared.selection_functions.base.SelectionFunctionError as e:
        check('begin with 9, not 8' in str(e), f'bad shape message: {e}')

    @scared.selection_function(words=17)
    def oob(plaintext):
        return plaintext

    try:
        oob(plaintext=pt)
        check(False, 'out of bounds words should raise')
    except scared.selection_functions.base.SelectionFunctionError as e:
        check('Words selection 17' in str(e), f'oob words message: {e}')
    check(isinstance(str(oob), str) and '17' in str(oob), 'str(selection function)')


# --------------------------------------------------------------------------------------
# 4. Analysis.run on a Container == one-shot statistic, whatever the batch size / run() history
# --------------------------------------------------------------------------------------
def analyses():
    def att_sf(words=None):
        @scared.attack_selection_function(guesses=range(8), words=words, expected_key_function=lambda key: key)
        def sf(plaintext, guesses):
            out = np.empty((plaintext.shape[0], len(guesses), plaintext.shape[1]), dtype='uint8')
            for i, g in enumerate(guesses):
                out[:, i, :] = np.bitwise_xor(plaintext, g) & 0x0f
            return out
        return sf

    def rev_sf(words=None):
        @scared.reverse_selection_function(words=words)
        def sf(plaintext):
            return plaintext & 0x0f
        return sf

    part = range(16)
    edges = np.linspace(0, 256, 9)
    disc = scared.maxabs
    mk = {
        'CPAAttack': lambda w: scared.CPAAttack(selection_function=att_sf(w), model=scared.HammingWeight(), discriminant=disc, precision='float64'),
        'CPAReverse': lambda w: scared.CPAReverse(selection_function=rev_sf(w), model=scared.HammingWeight(), precision='float64'),
        'DPAAttack': lambda w: scared.DPAAttack(selection_function=att_sf(w), model=scared.Monobit(1), discriminant=disc, precision='float64'),
        'DPAReverse': lambda w: scared.DPAReverse(selection_function=rev_sf(w), model=scared.Monobit(2), precision='float64'),
        'ANOVAAttack': lambda w: scared.ANOVAAttack(selection_function=att_sf(w), model=scared.Value(), discriminant=disc, partitions=part, precision='float64'),
        'ANOVAReverse': lambda w: scared.ANOVAReverse(selection_function=rev_sf(w), model=scared.Value(), partitions=part, precision='float64'),
        'NICVAttack': lambda w: scared.NICVAttack(selection_function=att_sf(w), model=scared.Value(), discriminant=disc, partitions=part, precision='float64'),
        'NICVReverse': lambda w: scared.NICVReverse(selection_function=rev_sf(w), model=scared.Value(), partitions=part, precision='float64'),
        'SNRAttack': lambda w: scared.SNRAttack(selection_function=att_sf(w), model=scared.Value(), discriminant=disc, partitions=part, precision='float64'),
        'SNRReverse': lambda w: scared.SNRReverse(selection_function=rev_sf(w), model=scared.Value(), partitions=part, precision='float64'),
        'MIAAttack': lambda w: scared.MIAAttack(selection_function=att_sf(w), model=scared.Value(), discriminant=disc, partitions=part, bin_edges=edges),
        'MIAReverse': lambda w: scared.MIAReverse(selection_function=rev_sf(w), model=scared.Value(), partitions=part, bin_edges=edges),
    }
    return mk


def same(a, b):
    a, b = np.asarray(a), np.asarray(b)
    return a.shape == b.shape and a.dtype == b.dtype and np.array_equal(a, b, equal_nan=True)


def check_analyses():
    import warnings
    warnings.simplefilter('ignore')
    mk = analyses()
    n1, n2, size = 83, 42, 12
    ths1, s1, p1 = make_ths(n1, size, 11)
    ths2, s2, p2 = make_ths(n2, size, 12)
    all_samples = np.concatenate([s1, s2])
    all_pt = np.concatenate([p1, p2])
    configs = [
        (None, [], None),
        (slice(1, 9), [], [0, 2]),
        ([0, 5, 3, 11], [drop_first], slice(1, 3)),
        (..., [minus_row_mean_floor, drop_first], 1),
    ]
    rules = [1, 7, 41, 82, 83, 500, 0.0001, [(0, 9), (5, 20), (12, 41)], None]
    try:
        for name, factory in mk.items():
            cheap = name.startswith(('CPA', 'DPA'))  # partitioned distinguishers are much slower per batch
            for frame, chain, words in (configs if cheap else configs[1:3]):
                ef = ... if frame is None else frame
                # one-shot references, computed without any container
                ref1 = factory(words)
                ref1.update(data=ref1.model(ref1.selection_function(plaintext=p1)), traces=ref_samples(s1, ef, chain))
                ref1.compute_results()
                ref12 = factory(words)
                ref12.update(data=ref12.model(ref12.selection_function(plaintext=all_pt)), traces=ref_samples(all_samples, ef, chain))
                ref12.compute_results()
                for rule in (rules if cheap else [41, 30, 500, rules[-2]]):
                    scared.set_batch_size(rule)
                    tag = f'{name} frame={frame!r} chain={[p.__name__ for p in chain]} words={words!r} rule={rule!r}'
                    a = factory(words)
                    a.run(scared.Container(ths1, frame=frame, preprocesses=list(chain)))
                    check(a.processed_traces == n1, f'processed traces {tag}')
                    check(same(a.results, ref1.results), f'results == one-shot {tag}')
                    if hasattr(a, 'scores'):
                        check(same(a.scores, a.discriminant(a.results)) and same(a.scores, ref1.scores), f'scores == discriminant(results) {tag}')
                    # history: second run accumulates as if the containers were concatenated
                    a.run(scared.Container(ths2, frame=frame, preprocesses=list(chain)))
                    check(a.processed_traces == n1 + n2, f'processed traces after 2 runs {tag}')
                    check(same(a.results, ref12.results), f'2 runs == one-shot on concatenation {tag}')
                    if hasattr(a, 'scores'):
                        check(same(a.scores, ref12.scores), f'2 runs scores {tag}')
        # convergence step picks its own batch size but the end result is unchanged
        for step in (10, 41, 100):
            for rule in (7, 500):
                scared.set_batch_size(rule)
                a = scared.CPAAttack(selection_function=mk['CPAAttack'](None).selection_function, model=scared.HammingWeight(),
                                     discriminant=scared.maxabs, precision='float64', convergence_step=step)
                a.run(scared.Container(ths1))
                ref = mk['CPAAttack'](None)
                ref.update(data=ref.model(ref.selection_function(plaintext=p1)), traces=s1)
                ref.compute_results()
                check(same(a.results, ref.results) and same(a.scores, ref.scores), f'convergence step={step} rule={rule}')
                check(a.convergence_traces.shape[-1] >= 1 and same(a.convergence_traces[..., -1], ref.scores), f'convergence traces step={step} rule={rule}: {a.convergence_traces.shape}')
    finally:
        scared.set_batch_size()


if __name__ == '__main__':
    check_batches()
    print('batches checked', CHECKS[0])
    check_batch_size_rules()
    print('batch size rules checked', CHECKS[0])
    check_selection_function()
    print('selection functions checked', CHECKS[0])
    check_analyses()
    print('analyses checked', CHECKS[0])
    print(f'{CHECKS[0]} checks, {len(FAILURES)} failures on {tree}')
    sys.exit(1 if FAILURES else 0)
