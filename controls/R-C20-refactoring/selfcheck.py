"""Self-check for refactoring R-C20 (scared/synchronization.py).

usage: python selfcheck.py <path-to-source-tree>

Exercises Synchronizer.run / check / _ErrorCounter through the public API on many
accept / raise / return-None patterns and compares with an independent model.
Exit 0 iff everything is as expected.
"""
import contextlib
import io
import os
import re
import shutil
import sys
import tempfile
import warnings
from pathlib import Path

tree = os.path.abspath(sys.argv[1])
sys.path.insert(0, tree)

import numpy as np  # noqa: E402
import estraces  # noqa: E402
import scared  # noqa: E402

assert os.path.abspath(scared.__file__).startswith(tree), scared.__file__

FAILURES = []
NB_CHECKS = [0]


def expect(cond, msg):
    NB_CHECKS[0] += 1
    if not cond:
        FAILURES.append(msg)
        print('FAIL:', msg)


def make_ths(n, width=20, seed=0):
    rng = np.random.RandomState(seed)
    samples = rng.randint(0, 255, (n, width)).astype('uint8')
    plaintext = rng.randint(0, 255, (n, 16)).astype('uint8')
    tag = np.arange(n, dtype='int64').reshape(n, 1) * 3 + 1
    return estraces.read_ths_from_ram(samples=samples, plaintext=plaintext, tag=tag), samples, plaintext, tag


class Boom(Exception):
    pass


def model_warnings(pattern):
    """Independent model of the consecutive-failure warnings: pattern is a string of 'a' (accept) or other (failure)."""
    out = []
    limit, streak = 8, 0
    for c in pattern:
        if c == 'a':
            streak = 0
            continue
        streak += 1
        if streak >= limit:
            limit *= 2
            out.append(f"Exception raised on {streak} consecutive traces during synchronization.")
    return out


def make_function(pattern, out_width, calls, sync_holder):
    """a: accept, n: return None, r: raise ResynchroError, x: raise unexpected exception, v: raise ValueError."""

    def function(trace_object, offset=0):
        i = len(calls)
        sync = sync_holder[0]
        # counters as seen from inside the function
        calls.append((int(trace_object.tag[0]), sync.processed_counter, sync.synchronized_counter))
        print("this must not reach stdout")
        c = pattern[i]
        if c == 'a':
            data = np.resize(trace_object.samples.array.astype('float32'), out_width) + offset + i
            return data
        if c == 'n':
            return None
        if c == 'r':
            raise scared.ResynchroError('rejected')
        if c == 'v':
            raise ValueError('bad value')
        raise Boom('boom')

    return function


def run_pattern(workdir, name, pattern, out_width, as_path, offset=None):
    n = len(pattern)
    ths, samples, plaintext, tag = make_ths(n, seed=len(pattern) + out_width)
    filename = os.path.join(workdir, f'{name}.ets')
    output = Path(filename) if as_path else filename
    calls, holder = [], [None]
    kwargs = {} if offset is None else {'offset': offset}
    sync = scared.Synchronizer(ths, output, make_function(pattern, out_width, calls, holder), **kwargs)
    holder[0] = sync
    expect(sync.processed_counter == 0 and sync.synchronized_counter == 0, f'{name}: counters not 0 before run')
    accepted = [i for i, c in enumerate(pattern) if c == 'a']
    stdout = io.StringIO()
    old_stdout = sys.stdout
    with warnings.catch_warnings(record=True) as caught, contextlib.redirect_stdout(stdout):
        warnings.simplefilter('always')
        redirected = sys.stdout
        try:
            out = sync.run()
            error = None
        except Exception as e:  # noqa
            out, error = None, e
        expect(sys.stdout is redirected, f'{name}: stdout not restored after run')
    expect(sys.stdout is old_stdout, f'{name}: stdout mess')
    expect(stdout.getvalue() == '', f'{name}: stdout not silenced: {stdout.getvalue()[:50]!r}')
    messages = [str(w.message) for w in caught if issubclass(w.category, UserWarning) and 'consecutive' in str(w.message)]
    expect(messages == model_warnings(pattern), f'{name}: warnings {messages} != {model_warnings(pattern)}')
    expect(all('synchronization.py' in w.filename for w in caught if 'consecutive' in str(w.message)), f'{name}: warning location')
    expect(sync.processed_counter == n, f'{name}: processed_counter {sync.processed_counter} != {n}')
    expect(sync.synchronized_counter == len(accepted), f'{name}: synchronized_counter {sync.synchronized_counter} != {len(accepted)}')
    # what the function saw at each call
    seen_ok = len(calls) == n
    acc = 0
    for i, call in enumerate(calls):
        seen_ok = seen_ok and call == (int(tag[i, 0]), i, acc)
        acc += pattern[i] == 'a'
    expect(seen_ok, f'{name}: function calls / counters seen inside function are wrong')
    if accepted:
        expect(error is None, f'{name}: run raised {error!r}')
        if out is not None:
            expect(isinstance(out, estraces.TraceHeaderSet), f'{name}: run does not return a ths')
            expect(len(out) == len(accepted), f'{name}: len(out)={len(out)} expected {len(accepted)}')
            off = 0 if offset is None else offset
            exp = np.array([np.resize(samples[i].astype('float32'), out_width) + off + i for i in accepted])
            got = out.samples[:]
            expect(got.shape == exp.shape and got.dtype == exp.dtype and np.array_equal(got, exp), f'{name}: samples differ')
            expect(np.array_equal(out.plaintext, plaintext[accepted]), f'{name}: plaintext differ')
            expect(np.array_equal(np.asarray(out.tag).reshape(-1), tag[accepted].reshape(-1)), f'{name}: tag differ')
            for j, i in enumerate(accepted[:3] + accepted[-3:]):
                jj = j if j < len(accepted[:3]) else len(accepted) - (len(accepted[:3] + accepted[-3:]) - j)
                expect(np.array_equal(out[jj].plaintext, plaintext[i]), f'{name}: trace {jj} plaintext')
            out.close()
    else:
        # nothing accepted: nothing was written, there is no file to read back.
        expect(error is not None and not isinstance(error, scared.SynchronizerError), f'{name}: expected reader failure, got {error!r}')
        expect(not os.path.exists(filename), f'{name}: output file created although nothing accepted')
    # second run refused, state untouched
    try:
        sync.run()
        expect(False, f'{name}: second run not refused')
    except scared.SynchronizerError as e:
        expect('already called' in str(e), f'{name}: second run message {e}')
    expect(len(calls) == n, f'{name}: second run called function')
    expect(sync.processed_counter == n and sync.synchronized_counter == len(accepted), f'{name}: counters changed by refused second run')
    text = str(sync)
    expect(f'Processed traces....: {n}\n' in text and f'Synchronized traces.: {len(accepted)}\n' in text, f'{name}: __str__')
    ths.close()


def check_interruptions(workdir):
    # KeyboardInterrupt (and subclasses, also mixed with Exception) propagate; counters include the interrupted trace.
    class Mixed(KeyboardInterrupt, Exception):
        pass

    for k, exc in enumerate((KeyboardInterrupt, Mixed, SystemExit)):
        ths, samples, plaintext, tag = make_ths(10, seed=k)
        filename = os.path.join(workdir, f'interrupt{k}.ets')
        state = []

        def function(trace_object):
            state.append(1)
            if len(state) == 2:
                return None
            if len(state) == 5:
                raise exc()
            return trace_object.samples.array

        sync = scared.Synchronizer(ths, filename, function)
        old_stdout = sys.stdout
        try:
            sync.run()
            expect(False, f'{exc.__name__} swallowed')
        except exc:
            pass
        expect(sys.stdout is old_stdout, 'stdout not restored after interruption')
        expect((sync.processed_counter, sync.synchronized_counter) == (5, 3), f'{exc.__name__}: counters {(sync.processed_counter, sync.synchronized_counter)}')
        try:
            sync.run()
            expect(False, 'second run after interruption not refused')
        except scared.SynchronizerError:
            pass
        expect(len(state) == 5, 'function called by refused run')
        sync.output.close()
        out = estraces.read_ths_from_ets_file(filename)
        expect(len(out) == 3 and np.array_equal(out.samples[:], samples[[0, 2, 3]]) and np.array_equal(out.plaintext, plaintext[[0, 2, 3]]),
               f'{exc.__name__}: partial output')
        out.close()
        ths.close()

    # warnings turned into errors: the 8th consecutive failure aborts run, processed_counter counts that trace.
    ths, samples, plaintext, tag = make_ths(30)
    state = []

    def function(trace_object):
        state.append(1)
        if 3 <= len(state):
            raise Boom()
        return trace_object.samples.array

    sync = scared.Synchronizer(ths, os.path.join(workdir, 'warnerr.ets'), function)
    with warnings.catch_warnings():
        warnings.simplefilter('error')
        try:
            sync.run()
            expect(False, 'warning as error did not propagate')
        except UserWarning as w:
            expect(str(w) == "Exception raised on 8 consecutive traces during synchronization.", f'warning text {w}')
    expect((sync.processed_counter, sync.synchronized_counter, len(state)) == (10, 2, 10), f'warn-as-error counters {(sync.processed_counter, sync.synchronized_counter, len(state))}')
    sync.output.close()
    ths.close()

    # failure of the writer propagates (existing file, overwrite disabled)
    ths, samples, plaintext, tag = make_ths(4)
    filename = os.path.join(workdir, 'exists.ets')
    s1 = scared.Synchronizer(ths, filename, lambda trace_object: trace_object.samples.array)
    s1.run().close()
    s2 = scared.Synchronizer(ths, filename, lambda trace_object: trace_object.samples.array)
    try:
        s2.run()
        expect(False, 'writing over existing rows without overwrite did not fail')
    except scared.SynchronizerError:
        expect(False, 'wrong error')
    except Exception:
        pass
    expect((s2.processed_counter, s2.synchronized_counter) == (1, 1), f'writer failure counters {(s2.processed_counter, s2.synchronized_counter)}')
    s2.output.close()
    s3 = scared.Synchronizer(ths, filename, lambda trace_object: trace_object.samples.array[::-1] if trace_object.tag[0] != 4 else None, overwrite=True)
    out = s3.run()
    expect(len(out) == 3 and np.array_equal(out.samples[:], samples[[0, 2, 3]][:, ::-1]) and np.array_equal(out.plaintext, plaintext[[0, 2, 3]]), 'overwrite output')
    out.close()
    ths.close()


def check_constructor():
    ths = make_ths(3)[0]
    for args in ((None, 'x.ets', len), (ths, 3, len), (ths, ths, 'nope')):
        try:
            scared.Synchronizer(*args)
            expect(False, f'constructor accepted {args}')
        except TypeError:
            expect(True, '')


def check_error_counter():
    ec = scared.synchronization._ErrorCounter()
    expect((ec.limit, ec.last_error_id, ec.counter) == (8, 0, 0), '_ErrorCounter initial state')
    rng = np.random.RandomState(5)
    for trial in range(30):
        ec = scared.synchronization._ErrorCounter()
        ids = np.flatnonzero(rng.rand(400) < rng.choice([0.5, 0.9, 0.98, 1.0]))
        if trial % 3 == 0:
            ids = ids + 1  # first error may be id 1
        got = []
        limit, streak, last = 8, 0, None
        exp = []
        with warnings.catch_warnings(record=True) as caught:
            warnings.simplefilter('always')
            for e in ids:
                ec.error_occur(int(e))
                streak = streak + 1 if (last is not None and e == last + 1) else 1
                last = e
                if streak >= limit:
                    limit *= 2
                    exp.append(streak)
                if (ec.counter, ec.last_error_id, ec.limit) != (streak, e, limit):
                    got.append('state')
            got_w = [str(w.message) for w in caught]
        expect(got == [], f'_ErrorCounter state trial {trial}')
        expect(got_w == [f"Exception raised on {s} consecutive traces during synchronization." for s in exp], f'_ErrorCounter warnings trial {trial}')


def check_check():
    n = 12
    ths, samples, plaintext, tag = make_ths(n, seed=3)

    def function(trace_object, scale=1):
        t = int(trace_object.tag[0])
        if t % 4 == 0:
            return None
        if t % 5 == 0:
            raise ValueError(f'no {t}')
        if t % 7 == 0:
            raise scared.ResynchroError(f'rej {t}')
        return trace_object.samples.array * scale

    sync = scared.Synchronizer(ths, os.path.join(tempfile.gettempdir(), 'never_written_R_C20.ets'), function, scale=2)
    for seed in range(6):
        np.random.seed(seed)
        idx = np.random.choice(np.arange(n), 7)
        follow = np.random.rand()
        exp_res, exp_lines = [], []
        for i in idx:
            t = int(tag[i, 0])
            if t % 4 == 0:
                exp_res.append(None)
                exp_lines.append(r'Raised scared\.synchronization\.SynchronizerError: Synchronization function returns None\. in check line \d+\.')
            elif t % 5 == 0:
                exp_lines.append(rf'Raised ValueError: no {t} in function line \d+\.')
            elif t % 7 == 0:
                exp_lines.append(rf'Raised scared\.synchronization\.ResynchroError: rej {t} in function line \d+\.')
            else:
                exp_res.append(samples[i] * 2)
        np.random.seed(seed)
        buf = io.StringIO()
        with contextlib.redirect_stdout(buf):
            res = sync.check(nb_traces=7)
        expect(np.random.rand() == follow, f'check seed {seed}: random state consumption differs')
        ok = len(res) == len(exp_res) and all((a is None and b is None) or (a is not None and b is not None and np.array_equal(a, b)) for a, b in zip(res, exp_res))
        expect(ok, f'check seed {seed}: results differ')
        lines = buf.getvalue().splitlines()
        expect(len(lines) == len(exp_lines) and all(re.fullmatch(p, ln) for p, ln in zip(exp_lines, lines)), f'check seed {seed}: printed {lines} expected {exp_lines}')
        # without catching: first failing trace raises
        np.random.seed(seed)
        first = None
        for i in idx:
            t = int(tag[i, 0])
            if t % 4 == 0:
                first = scared.SynchronizerError
            elif t % 5 == 0:
                first = ValueError
            elif t % 7 == 0:
                first = scared.ResynchroError
            if first:
                break
        try:
            sync.check(nb_traces=7, catch_exceptions=False)
            expect(first is None, f'check seed {seed}: no exception raised, expected {first}')
        except Exception as e:  # noqa
            expect(first is not None and type(e) is first, f'check seed {seed}: raised {e!r} expected {first}')
    expect((sync.processed_counter, sync.synchronized_counter) == (0, 0), 'check changed counters')
    # check does not consume the single run
    filename = os.path.join(tempfile.mkdtemp(prefix='R_C20_'), 'after_check.ets')
    sync2 = scared.Synchronizer(ths, filename, function)
    with contextlib.redirect_stdout(io.StringIO()):
        sync2.check(3)
    out = sync2.run()
    keep = [i for i in range(n) if all(int(tag[i, 0]) % m for m in (4, 5, 7))]
    expect(np.array_equal(out.samples[:], samples[keep]) and np.array_equal(out.plaintext, plaintext[keep]), 'run after check')
    expect((sync2.processed_counter, sync2.synchronized_counter) == (n, len(keep)), 'run after check counters')
    out.close()
    shutil.rmtree(os.path.dirname(filename), ignore_errors=True)
    ths.close()


def main():
    workdir = tempfile.mkdtemp(prefix='selfcheck_R_C20_')
    try:
        patterns = [
            'a', 'aaaaa', 'n', 'x', 'r', 'nnnn', 'xrxnv', 'naaaa', 'xaaaa', 'aaaan', 'aaaax', 'raaar',
            'anaxarava', 'aannxxaarra',
            'a' + 'x' * 7 + 'a', 'a' + 'x' * 8 + 'a', 'x' * 8 + 'a', 'a' + 'n' * 9, 'x' * 20,
            'a' + 'xnrv' * 5 + 'aa' + 'n' * 17 + 'a' + 'r' * 15 + 'a' + 'x' * 40 + 'a',
            'xa' * 12, 'n' * 7 + 'a' + 'n' * 8 + 'a' + 'x' * 16 + 'aa',
        ]
        rng = np.random.RandomState(20)
        for p_accept in (0.1, 0.5, 0.9):
            for _ in range(4):
                patterns.append(''.join(rng.choice(list('anrxv'), size=rng.randint(1, 70), p=[p_accept] + [(1 - p_accept) / 4] * 4)))
        for k, pattern in enumerate(patterns):
            run_pattern(workdir, f'p{k}', pattern, out_width=(20, 7, 33)[k % 3], as_path=bool(k % 2), offset=None if k % 4 else 0.5)
        check_interruptions(workdir)
        check_constructor()
        check_error_counter()
        check_check()
    finally:
        shutil.rmtree(workdir, ignore_errors=True)
    print(f'{NB_CHECKS[0]} checks, {len(FAILURES)} failures')
    return 1 if FAILURES else 0


if __name__ == '__main__':
    sys.exit(main())
