"""Self-check of the t-test orchestration (TTestAnalysis.run, TTestThreadAccumulator start/run/join/stop/update/compute).

usage: python selfcheck.py <path-to-source-tree>

Exercises, through the public API only, the Welch statistic against an independent numpy computation under many
batchings and thread timings (delays injected in the batches), repeated runs, failure hand-over and the accumulator
thread API. Exit 0 iff everything is as expected.
"""
import os
import sys
import threading
import time

import numpy as np

tree = os.path.realpath(sys.argv[1] if len(sys.argv) > 1 else '.')
sys.path.insert(0, tree)
import scared  # noqa: E402

assert os.path.realpath(scared.__file__).startswith(tree), scared.__file__

rng = np.random.RandomState(12345)
FAILS = []


def check(cond, msg):
    if not cond:
        FAILS.append(msg)
        print('FAIL:', msg)


class Boom(Exception):
    pass


class _Batch:
    """Wraps a batch: sleeps / calls a hook / fails when the samples are accessed."""

    def __init__(self, inner, delay=0., fail=None, hook=None):
        self.inner, self.delay, self.fail, self.hook = inner, delay, fail, hook

    @property
    def samples(self):
        if self.hook is not None:
            self.hook()
        if self.delay:
            time.sleep(self.delay)
        if self.fail is not None:
            raise self.fail
        return self.inner.samples

    def __len__(self):
        return len(self.inner)


class _Batches:
    def __init__(self, inner, delays, fail_at, fail, hooks):
        self.items = []
        for i, b in enumerate(inner):
            self.items.append(_Batch(b, delay=delays(i), fail=fail if i == fail_at else None, hook=hooks.get(i)))

    def __len__(self):
        return len(self.items)

    def __iter__(self):
        return iter(self.items)


class TunedContainer(scared.Container):
    """Container with chosen batch size, per batch delays, optional failing batch and hooks."""

    def __init__(self, ths, batch_size, delays=lambda i: 0., fail_at=None, fail=None, hooks=None, **kw):
        super().__init__(ths, **kw)
        self.bs, self.delays, self.fail_at, self.fail, self.hooks = batch_size, delays, fail_at, fail, hooks or {}

    def batches(self, batch_size=None):
        return _Batches(super().batches(batch_size=self.bs), self.delays, self.fail_at, self.fail, self.hooks)


class EmptyContainer(scared.Container):
    def batches(self, batch_size=None):
        return []


class TunedTTestContainer(scared.TTestContainer):
    def __init__(self, cont_1, cont_2):
        self.containers = [cont_1, cont_2]


def ths_of(samples):
    return scared.traces.formats.read_ths_from_ram(samples=samples, plaintext=np.zeros((len(samples), 1), dtype='uint8'))


def reference(t_1, t_2, precision):
    """Welch statistic from exact sums, with the documented formulas evaluated in the requested precision."""
    out = []
    for t in (t_1, t_2):
        t = t.astype('float64')
        n = len(t)
        s = t.sum(axis=0).astype(precision)
        ss = (t ** 2).sum(axis=0).astype(precision)
        mean = s / n
        var = ss / n - mean ** 2
        out.append((mean, var, n, s, ss))
    (m1, v1, n1, _, _), (m2, v2, n2, _, _) = out
    with np.errstate(all='ignore'):
        res = (m1 - m2) / np.sqrt(v1 / n1 + v2 / n2)
    return res, out


def welch64(t_1, t_2):
    t_1, t_2 = t_1.astype('float64'), t_2.astype('float64')
    with np.errstate(all='ignore'):
        return (t_1.mean(0) - t_2.mean(0)) / np.sqrt(t_1.var(0) / len(t_1) + t_2.var(0) / len(t_2))


def random_delays(scale):
    table = rng.rand(64) * scale
    return lambda i: float(table[i % 64])


def data(n, size, dtype):
    # small integer values: every sum is exactly representable, even in float32.
    return rng.randint(0, 16, (n, size)).astype(dtype)


# 1. Welch statistic whatever sizes, dtypes, batch sizes, timings, precision, frame and preprocesses.
cases = [
    (1, 1, 3, 1, 1), (2, 1, 5, 1, 2), (7, 3, 4, 2, 5), (10, 10, 8, 3, 3), (33, 5, 6, 32, 1),
    (50, 71, 16, 7, 10), (101, 100, 33, 100, 1), (120, 13, 9, 1000, 4), (64, 64, 1, 8, 8),
]
for n1, n2, size, bs1, bs2 in cases:
    for dtype in ('uint8', 'int16', 'float32'):
        for precision in ('float32', 'float64'):
            t_1, t_2 = data(n1, size, dtype), data(n2, size, dtype)
            for scale_1, scale_2 in ((0., 0.), (0.004, 0.), (0., 0.004), (0.003, 0.003)):
                c = TunedTTestContainer(TunedContainer(ths_of(t_1), bs1, random_delays(scale_1)), TunedContainer(ths_of(t_2), bs2, random_delays(scale_2)))
                a = scared.TTestAnalysis(precision=precision)
                with np.errstate(all='ignore'):
                    a.run(c)
                exp, accs = reference(t_1, t_2, precision)
                tag = f'case {(n1, n2, size, bs1, bs2, dtype, precision, scale_1, scale_2)}'
                check(a.result.dtype == np.dtype(precision), f'{tag}: result dtype {a.result.dtype}')
                check(np.array_equal(a.result, exp, equal_nan=True), f'{tag}: result differs from reference')
                ok = np.isfinite(exp)
                check(np.allclose(a.result[ok], welch64(t_1, t_2)[ok], rtol=1e-3 if precision == 'float32' else 1e-9, atol=1e-3 if precision == 'float32' else 1e-9),
                      f'{tag}: result differs from Welch')
                for accu, (mean, var, n, s, ss) in zip(a.accumulators, accs):
                    check(accu.processed_traces == n, f'{tag}: processed_traces')
                    check(np.array_equal(accu.sum, s) and np.array_equal(accu.sum_squared, ss), f'{tag}: sums')
                    check(np.array_equal(accu.mean, mean) and np.array_equal(accu.var, var), f'{tag}: mean/var')
                    check(not accu.is_alive(), f'{tag}: thread alive after run')

# frame and preprocesses, through the genuine TTestContainer (default batch size).
t_1, t_2 = data(230, 40, 'uint8'), data(57, 40, 'uint8')
for precision in ('float32', 'float64'):
    a = scared.TTestAnalysis(precision=precision)
    a.run(scared.TTestContainer(ths_of(t_1), ths_of(t_2), frame=slice(5, 25), preprocesses=[scared.preprocesses.square]))
    f_1, f_2 = t_1[:, 5:25].astype('float64') ** 2, t_2[:, 5:25].astype('float64') ** 2
    check(np.array_equal(a.result, reference(f_1, f_2, precision)[0], equal_nan=True), f'frame+preprocess {precision}')

# 2. Repeated runs accumulate as a concatenation.
for precision in ('float32', 'float64'):
    parts = [(data(13, 12, 'uint8'), data(40, 12, 'uint8')), (data(1, 12, 'uint8'), data(9, 12, 'uint8')), (data(77, 12, 'uint8'), data(3, 12, 'uint8'))]
    a = scared.TTestAnalysis(precision=precision)
    for k, (p_1, p_2) in enumerate(parts):
        a.run(TunedTTestContainer(TunedContainer(ths_of(p_1), 1 + 3 * k, random_delays(0.002)), TunedContainer(ths_of(p_2), 4 - k, random_delays(0.002))))
        cat_1, cat_2 = np.vstack([p[0] for p in parts[:k + 1]]), np.vstack([p[1] for p in parts[:k + 1]])
        check(np.array_equal(a.result, reference(cat_1, cat_2, precision)[0], equal_nan=True), f'repeated run {k} {precision}')
        check([x.processed_traces for x in a.accumulators] == [len(cat_1), len(cat_2)], f'repeated run {k} {precision}: processed_traces')

# 3. A failure in one thread is re-raised to the caller (the very exception), whatever the timings.
t_1, t_2 = data(40, 6, 'uint8'), data(40, 6, 'uint8')
timings = [(0., 0.), (0.01, 0.), (0., 0.01), (0.005, 0.005), (0.02, 0.001), (0.001, 0.02)]
for failing in (0, 1):
    for fail_at in (0, 2, 7):
        for d_1, d_2 in timings:
            for rep in range(3):
                boom = Boom(f'{failing}-{fail_at}')
                conts = [TunedContainer(ths_of(t_1), 5, lambda i, d=d_1: d), TunedContainer(ths_of(t_2), 5, lambda i, d=d_2: d)]
                conts[failing].fail_at, conts[failing].fail = fail_at, boom
                a = scared.TTestAnalysis()
                try:
                    a.run(TunedTTestContainer(*conts))
                    check(False, f'failure {boom}: run returned')
                except Boom as e:
                    check(e is boom, f'failure {boom}: another exception raised')
                except Exception as e:
                    check(False, f'failure {boom}: {type(e)} {e} raised instead')
                check(not hasattr(a, 'result'), f'failure {boom}: a result is available')

# both fail: the first set's failure is reported.
b_1, b_2 = Boom('first'), Boom('second')
for d_1, d_2 in timings:
    a = scared.TTestAnalysis()
    try:
        a.run(TunedTTestContainer(TunedContainer(ths_of(t_1), 5, lambda i, d=d_1: d, fail_at=3, fail=b_1), TunedContainer(ths_of(t_2), 5, lambda i, d=d_2: d, fail_at=1, fail=b_2)))
        check(False, 'both fail: run returned')
    except Boom as e:
        check(e is b_1, 'both fail: first set failure expected')

# invalid batch content (as in the test suite) and empty set.
a = scared.TTestAnalysis()
try:
    a.run(TunedTTestContainer(TunedContainer(ths_of(t_1), 5), EmptyContainer(ths_of(t_2))))
    check(False, 'empty set: run returned')
except scared.TTestError:
    pass
try:
    scared.TTestAnalysis().run('foo')
    check(False, 'not a ttest container accepted')
except TypeError:
    pass
time.sleep(0.1)

# 4. Accumulator thread API.
t = data(60, 7, 'uint8')
exp_sum, exp_ss = t.astype('float64').sum(0), (t.astype('float64') ** 2).sum(0)

accu = scared.TTestThreadAccumulator(precision='float64')
try:
    accu.compute()
    check(False, 'compute on fresh accumulator')
except scared.TTestError:
    pass
accu.stop()  # outdated stop request: must not prevent the next accumulation
accu.run(TunedContainer(ths_of(t), 7))
check(accu.processed_traces == 60 and np.array_equal(accu.sum, exp_sum) and np.array_equal(accu.sum_squared, exp_ss), 'direct run')
accu.stop()
accu.start(TunedContainer(ths_of(t), 11, random_delays(0.003)))
accu.join()
check(not accu.is_alive(), 'alive after join')
check(accu.processed_traces == 120 and np.array_equal(accu.sum, 2 * exp_sum) and np.array_equal(accu.sum_squared, 2 * exp_ss), 'start/join after run')
accu.compute()
check(np.array_equal(accu.mean, 2 * exp_sum / 120) and np.array_equal(accu.var, 2 * exp_ss / 120 - (2 * exp_sum / 120) ** 2), 'compute')
accu.update(t[:1])
check(accu.processed_traces == 121, 'update single trace')
try:
    accu.update([1, 2])
    check(False, 'update with list')
except TypeError:
    pass

# start while alive is refused; stop makes the thread leave at next batch, silently.
reached, gate = threading.Event(), threading.Event()
accu = scared.TTestThreadAccumulator(precision='float32')
accu.start(TunedContainer(ths_of(t), 10, hooks={0: lambda: (reached.set(), gate.wait(10))}))
check(reached.wait(10), 'thread did not reach first batch')
check(accu.is_alive(), 'thread should be alive')
try:
    accu.start(TunedContainer(ths_of(t), 10))
    check(False, 'start while alive accepted')
except RuntimeError as e:
    check('already running' in str(e), 'start while alive message')
accu.stop()
gate.set()
accu.join()
check(accu.processed_traces == 10 and np.array_equal(accu.sum, t[:10].astype('float64').sum(0)), f'stop: {accu.processed_traces} traces processed')
accu.start(TunedContainer(ths_of(t), 10))
accu.join()
check(accu.processed_traces == 70, 'restart after stop')

# errors: direct run raises, thread hands over to join (each time), and a later good accumulation clears it.
accu = scared.TTestThreadAccumulator('float32')
try:
    accu.run('foo')
    check(False, 'run(foo) accepted')
except ValueError as e:
    check('Please give a Container' in str(e), 'run(foo) message')
accu.start('foo')
for _ in range(2):
    try:
        accu.join()
        check(False, 'join after start(foo) silent')
    except ValueError as e:
        check('Please give a Container' in str(e), 'join message')
boom = Boom('thread')
accu.start(TunedContainer(ths_of(t), 10, fail_at=2, fail=boom))
try:
    accu.join()
    check(False, 'join silent after failure')
except Boom as e:
    check(e is boom and accu.processed_traces == 20, 'join failure hand-over')
accu.start(TunedContainer(ths_of(t), 10))
accu.join()
check(accu.processed_traces == 80, 'good accumulation after a failure')
try:
    scared.TTestThreadAccumulator('float32').join()
    check(False, 'join before start accepted')
except RuntimeError:
    pass

print('selfcheck:', 'FAILED (%d)' % len(FAILS) if FAILS else 'OK')
sys.exit(1 if FAILS else 0)
