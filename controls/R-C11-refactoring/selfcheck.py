"""Self-check for refactoring R-C11 (accumulation kernels and kernel selection of partitioned / template build distinguishers).

usage: /venv/bin/python selfcheck.py <path-to-source-tree>

Through the public API (ANOVA/NICV/SNR distinguishers update()/compute(), TemplateAttack.build()), for every sequence of
kernel choices over the batches, several numba thread counts, several trace dtypes (integers, float32/float64 with and
without a large offset), class-set sizes on both sides of the 9-class switch and both precisions, checks that:
  - accumulators and counters equal an independent numpy computation (bit-identical in the exact-integer regime,
    within rounding of the requested precision otherwise),
  - results do not depend on the sequence of kernels nor on the thread count (bit-identical in the exact regime).
The kernel is forced with whatever private selection state the tree has (`_timings` on the original tree, the picker class
on the refactored one); if none is found, only the natural (timing based) schedule is exercised.
Exit status 0 iff everything is as expected.
"""
import itertools
import os
import sys

tree = os.path.abspath(sys.argv[1] if len(sys.argv) > 1 else '.')
sys.path.insert(0, tree)
os.environ.pop('SCARED_VERIF', None)

import warnings  # noqa: E402
import numpy as np  # noqa: E402
import numba  # noqa: E402
import scared  # noqa: E402
from scared.distinguishers import partitioned as _part  # noqa: E402

assert os.path.abspath(scared.__file__).startswith(tree), scared.__file__

warnings.filterwarnings('ignore', category=RuntimeWarning)  # metrics of degenerate inputs divide by zero
FAILURES = []
CHECKS = [0]
FORCED = {'index': None}
RAN = []


def check(cond, msg):
    CHECKS[0] += 1
    if not cond:
        FAILURES.append(msg)
        if len(FAILURES) <= 40:
            print('FAIL:', msg)


# ---------------------------------------------------------------- kernel forcing, for both trees
PICKER = getattr(_part, '_FastestKernelPicker', None)
if PICKER is not None:
    _orig_pick = PICKER.pick

    def _pick(self):
        if FORCED['index'] is None:
            return _orig_pick(self)
        return FORCED['index']
    PICKER.pick = _pick
    MODE = 'picker'
elif hasattr(_part.PartitionedDistinguisherMixin, '_accumulate_core_1'):
    MODE = 'timings'
else:
    MODE = 'natural'


def force_before(obj, index):
    """Arrange for kernel `index` to be used by the next _accumulate of obj."""
    FORCED['index'] = index
    if MODE == 'timings' and index is not None:
        obj._timings = [0.0, 1e9] if index == 0 else [1e9, 0.0]


def ran_after(obj, index):
    """Check the forced kernel is the one which ran (when there is a choice)."""
    if index is None:
        return
    if MODE == 'picker':
        picker = getattr(obj, '_kernel_picker', None)
        if picker is not None:
            check(picker.last == index, f'picker ran kernel {picker.last}, {index} expected')
            RAN.append(index)
    elif MODE == 'timings' and hasattr(obj, '_timings'):
        check(obj._timings[index] not in (0.0, 1e9) and obj._timings[1 - index] == 1e9, f'kernel {index} not run: {obj._timings}')
        RAN.append(index)


# ---------------------------------------------------------------- inputs
def make_traces(kind, n, length, rng):
    if kind == 'uint8':
        return rng.integers(0, 16, (n, length)).astype('uint8'), True
    if kind == 'int16':
        return rng.integers(-20, 20, (n, length)).astype('int16'), True
    if kind == 'float32-int':
        return rng.integers(-8, 8, (n, length)).astype('float32'), True
    if kind == 'float32':
        return rng.normal(0, 1, (n, length)).astype('float32'), False
    if kind == 'float32-offset':
        return (rng.normal(0, 1, (n, length)) + 3000).astype('float32'), False
    if kind == 'float64':
        return rng.normal(0, 1, (n, length)).astype('float64'), False
    if kind == 'float64-offset':
        return (rng.normal(0, 1, (n, length)) + 3000).astype('float64'), False
    raise ValueError(kind)


def tolerances(precision):
    return dict(rtol=2e-3, atol=1e-2) if np.dtype(precision) == np.float32 else dict(rtol=1e-9, atol=1e-9)


def same(a, b, exact, precision, what):
    a = np.asarray(a)
    b = np.asarray(b)
    check(a.shape == b.shape, f'{what}: shapes {a.shape} {b.shape}')
    if a.shape != b.shape:
        return
    if exact:
        check(np.array_equal(a, b, equal_nan=True), f'{what}: not identical (max diff {np.nanmax(np.abs(a.astype("f8") - b.astype("f8")))})')
    else:
        check(np.allclose(a, b, equal_nan=True, **tolerances(precision)), f'{what}: not close')


# ---------------------------------------------------------------- partitioned distinguishers
def reference_partitioned(batches, partitions, precision):
    traces = np.concatenate([np.asarray(t).astype(precision).astype('float64') for t, _ in batches])
    data = np.concatenate([d for _, d in batches]).astype('int64')
    length, words, n_p = traces.shape[1], data.shape[1], len(partitions)
    s = np.zeros((length, words, n_p))
    ss = np.zeros((length, words, n_p))
    c = np.zeros((words, n_p))
    for w in range(words):
        for p, value in enumerate(partitions):
            mask = data[:, w] == value
            c[w, p] = mask.sum()
            s[:, w, p] = traces[mask].sum(0)
            ss[:, w, p] = (traces[mask] ** 2).sum(0)
    return s, ss, c


def run_partitioned(cls, batches, partitions, precision, schedule, compute_between):
    d = cls(partitions=partitions, precision=precision)
    for (traces, data), index in zip(batches, schedule):
        force_before(d, index)
        d.update(traces=traces, data=data)
        ran_after(d, index)
        if compute_between:
            d.compute()
    FORCED['index'] = None
    return d, d.compute()


def check_partitioned(kind, precision, partitions, explicit, threads_list, rng, schedules=None, other_metrics=False):
    sizes = (37, 5, 64)
    length, words = 11, 3
    batches = []
    exact = True
    values = list(partitions) + [max(partitions) + 1, max(partitions) + 7]  # some values are outside of the partitions
    for n in sizes:
        traces, ex = make_traces(kind, n, length, rng)
        exact = exact and ex
        data = rng.choice(values, (n, words)).astype('uint8')
        batches.append((traces, data))
    batches[1][1][:, 0] = values[0]  # a batch where most classes are absent for one word
    ref_s, ref_ss, ref_c = reference_partitioned(batches, partitions, precision)
    has_choice = len(partitions) <= 9 and MODE != 'natural'
    if not has_choice:
        schedules = [(None,) * len(batches)]
    elif schedules is None:
        schedules = list(itertools.product((0, 1), repeat=len(batches)))
    arg = np.array(partitions, dtype='int32') if explicit else list(partitions)
    base = {}
    label = f'partitioned {kind} {precision} P={len(partitions)}'
    for i, schedule in enumerate(schedules):
        for threads in ([threads_list[i % len(threads_list)]] if len(schedules) > 1 else threads_list[:2]):
            numba.set_num_threads(threads)
            d, res = run_partitioned(scared.ANOVADistinguisher, batches, arg, precision, schedule, compute_between=(sum(x or 0 for x in schedule) % 2 == 1))
            tag = f'{label} threads={threads} schedule={schedule}'
            check(d.sum.dtype == np.dtype(precision) and d.counters.dtype == np.dtype(precision), f'{tag}: dtype')
            check(d.processed_traces == sum(sizes), f'{tag}: processed_traces')
            same(d.counters, ref_c.astype(precision), True, precision, f'{tag}: counters')
            same(d.sum, ref_s.astype(precision), exact, precision, f'{tag}: sum')
            same(d.sum_square, ref_ss.astype(precision), exact, precision, f'{tag}: sum_square')
            if 'res' not in base:
                base.update(res=res, sum=d.sum.copy(), ss=d.sum_square.copy())
            if exact:
                same(res, base['res'], True, precision, f'{tag}: ANOVA result vs first schedule')
            else:
                same(d.sum, base['sum'], False, precision, f'{tag}: sum vs first schedule')
                same(d.sum_square, base['ss'], False, precision, f'{tag}: sum_square vs first schedule')
    # Other metrics share the accumulation: one mixed schedule each is enough, compared with the all-kernel-0 schedule.
    numba.set_num_threads(threads_list[-1])
    if exact and other_metrics:
        for cls in (scared.NICVDistinguisher, scared.SNRDistinguisher):
            _, r0 = run_partitioned(cls, batches, arg, precision, schedules[0], False)
            _, r1 = run_partitioned(cls, batches, arg, precision, schedules[len(schedules) // 2 - 1 if len(schedules) > 1 else 0], True)
            _, r2 = run_partitioned(cls, batches, arg, precision, schedules[-1], False)
            same(r1, r0, True, precision, f'{label} {cls.__name__} mixed schedule')
            same(r2, r0, True, precision, f'{label} {cls.__name__} last schedule')


# ---------------------------------------------------------------- template build
@scared.reverse_selection_function
def _first_byte(plaintext):
    return plaintext[:, :1]


def reference_template(traces, classes, partitions, precision):
    t = np.asarray(traces).astype(precision).astype('float64')
    n_p, length = len(partitions), t.shape[1]
    exi = np.zeros((n_p, length))
    exxi = np.zeros((n_p, length, length))
    c = np.zeros(n_p)
    for p, value in enumerate(partitions):
        mask = classes == value
        c[p] = mask.sum()
        exi[p] = t[mask].sum(0)
        exxi[p] = t[mask].T @ t[mask]
    return exi, exxi, c


def check_template(kind, precision, partitions, threads_list, rng, schedules=None):
    n, length, batch = 50, 7, 20  # 3 batches: 20, 20, 10
    traces, exact = make_traces(kind, n, length, rng)
    values = list(partitions) + [max(partitions) + 2]
    plaintext = rng.choice(values, (n, 4)).astype('uint8')
    plaintext[20:40, 0] = np.where(plaintext[20:40, 0] == values[1], values[0], plaintext[20:40, 0])  # class absent in batch 2
    ref_exi, ref_exxi, ref_c = reference_template(traces, plaintext[:, 0], partitions, precision)
    ths = scared.traces.formats.read_ths_from_ram(traces, plaintext=plaintext)
    if MODE == 'natural':
        schedules = [(None,) * 3]
    elif schedules is None:
        schedules = list(itertools.product((0, 1), repeat=3))
    label = f'template {kind} {precision} P={len(partitions)}'
    base = {}
    scared.set_batch_size(batch)
    try:
        for i, schedule in enumerate(schedules):
            for threads in [threads_list[i % len(threads_list)]]:
                numba.set_num_threads(threads)
                att = scared.TemplateAttack(container_building=scared.Container(ths), reverse_selection_function=_first_byte,
                                            model=scared.Value(), partitions=np.array(partitions, dtype='int32'), precision=precision)
                build = att._build_analysis
                pending = list(schedule)
                inner = build._accumulate

                def forced_accumulate(traces, data, _inner=inner, _pending=pending, _build=build):
                    index = _pending.pop(0)
                    force_before(_build, index)
                    _inner(traces, data)
                    ran_after(_build, index)
                build._accumulate = forced_accumulate
                att.build()
                FORCED['index'] = None
                tag = f'{label} threads={threads} schedule={schedule}'
                check(not pending, f'{tag}: {3 - len(pending)} batches instead of 3')
                check(build._exi.dtype == np.dtype(precision) and build._exxi.dtype == np.dtype(precision), f'{tag}: dtype')
                same(build._counters, ref_c.astype(precision), True, precision, f'{tag}: counters')
                same(build._exi, ref_exi.astype(precision), exact, precision, f'{tag}: exi')
                same(build._exxi, ref_exxi.astype(precision), exact, precision, f'{tag}: exxi')
                if 'templates' not in base:
                    base.update(templates=att.templates.copy(), cov=att.pooled_covariance.copy(), exxi=build._exxi.copy())
                if exact:
                    same(att.templates, base['templates'], True, precision, f'{tag}: templates vs first schedule')
                    same(att.pooled_covariance, base['cov'], True, precision, f'{tag}: pooled covariance vs first schedule')
                else:
                    same(att.templates, base['templates'], False, precision, f'{tag}: templates vs first schedule')
                    same(build._exxi, base['exxi'], False, precision, f'{tag}: exxi vs first schedule')
    finally:
        scared.set_batch_size(None)


def check_natural(threads_list, rng):
    """Long histories with the tree's own (timing based) selection: whatever it picks, accumulators match the reference."""
    numba.set_num_threads(threads_list[-1])
    partitions = [0, 1, 2, 3, 4]
    batches = []
    for i in range(40):
        n = 1 + (7 * i) % 23
        batches.append((make_traces('uint8', n, 9, rng)[0], rng.integers(0, 7, (n, 2)).astype('uint8')))
    ref_s, ref_ss, ref_c = reference_partitioned(batches, partitions, 'float32')
    d, _ = run_partitioned(scared.SNRDistinguisher, batches, partitions, 'float32', (None,) * len(batches), False)
    same(d.counters, ref_c.astype('float32'), True, 'float32', 'natural partitioned: counters')
    same(d.sum, ref_s.astype('float32'), True, 'float32', 'natural partitioned: sum')
    same(d.sum_square, ref_ss.astype('float32'), True, 'float32', 'natural partitioned: sum_square')
    picker = getattr(d, '_kernel_picker', None)
    if picker is not None:
        check(picker.calls == len(batches) and all(c is not None and c > 0 for c in picker.costs), f'picker state {picker.calls} {picker.costs}')

    traces = make_traces('uint8', 200, 6, rng)[0]
    plaintext = rng.integers(0, 6, (200, 2)).astype('uint8')
    ref_exi, ref_exxi, ref_c = reference_template(traces, plaintext[:, 0], partitions, 'float64')
    ths = scared.traces.formats.read_ths_from_ram(traces, plaintext=plaintext)
    scared.set_batch_size(5)
    try:
        att = scared.TemplateAttack(container_building=scared.Container(ths), reverse_selection_function=_first_byte,
                                    model=scared.Value(), partitions=partitions, precision='float64')
        att.build()
    finally:
        scared.set_batch_size(None)
    build = att._build_analysis
    same(build._counters, ref_c, True, 'float64', 'natural template: counters')
    same(build._exi, ref_exi, True, 'float64', 'natural template: exi')
    same(build._exxi, ref_exxi, True, 'float64', 'natural template: exxi')
    same(att.templates, ref_exi / np.maximum(ref_c, 1)[:, None], True, 'float64', 'natural template: templates')


def main():
    rng = np.random.default_rng(20260930)
    max_threads = numba.config.NUMBA_NUM_THREADS
    threads_list = sorted({t for t in (1, 2, 3, 4, 8, 16) if t <= max_threads})
    print(f'tree={tree} selection mode={MODE} threads={threads_list}')
    kinds = os.environ.get('SELFCHECK_KINDS', 'uint8,int16,float32-int,float32,float32-offset,float64,float64-offset').split(',')
    for precision in ('float32', 'float64'):
        for kind in kinds:
            mixed = [(0, 1, 1), (1, 0, 1)]
            check_partitioned(kind, precision, [0, 1, 2, 3], False, threads_list, rng, other_metrics=(kind in ('uint8', 'float32-int')))
            check_partitioned(kind, precision, list(range(9)), True, threads_list[::-1], rng, schedules=mixed)
            check_partitioned(kind, precision, [1, 3, 5, 8, 13, 21, 34, 55, 89, 144], True, threads_list, rng)
            if kind != 'int16':
                check_template(kind, precision, [0, 1, 2, 5], threads_list, rng)
                check_template(kind, precision, list(range(12)), threads_list[::-1], rng, schedules=mixed)
            print(f'  done {kind} {precision}: {CHECKS[0]} checks, {len(FAILURES)} failures', flush=True)
    check_natural(threads_list, rng)
    if MODE != 'natural':
        check(0 in RAN and 1 in RAN, 'both kernels must have been exercised')
    print(f'{CHECKS[0]} checks, {len(FAILURES)} failures, kernels forced: {len(RAN)} batches')
    return 1 if FAILURES else 0


if __name__ == '__main__':
    sys.exit(main())
