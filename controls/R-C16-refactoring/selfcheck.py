"""Self-check of the distinguishers update path (property C16: a rejected update leaves a distinguisher as it was).

usage: selfcheck.py <path-to-source-tree> [--digest]

For several distinguishers (CPA, CPA alternative, DPA, ANOVA, NICV, SNR, MIA, template build, and CPA/DPA analyses
through `process`), histories of accepted batches are replayed with rejected batches inserted at every position
(including as the very first call), for several kinds of rejection. After every call, the observable state
(processed_traces, documented accumulators, compute()) is compared to the one of a twin object which only received
the accepted batches, and CPA / DPA accumulators and results are also compared to an independent numpy computation.

All values are small integers so that every sum is exact: comparisons are bit for bit.
With --digest, a sha256 of everything observed is printed (used to compare two source trees).
Exit status is 0 iff everything is as expected.
"""
import hashlib
import sys
import types

import numpy as np

tree = sys.argv[1]
sys.path.insert(0, tree)
import scared  # noqa: E402
from scared.distinguishers import base as dbase  # noqa: E402
from scared.distinguishers import template as dtemplate  # noqa: E402

assert scared.__file__.startswith(tree.rstrip('/')), (scared.__file__, tree)

failures = []
digest = hashlib.sha256()
rng = np.random.RandomState(16)


def note(*arrays):
    for a in arrays:
        a = np.ascontiguousarray(a)
        digest.update(str((a.dtype, a.shape)).encode())
        digest.update(a.tobytes())


def fail(msg):
    failures.append(msg)
    print('FAIL:', msg)


def same(a, b):
    a, b = np.asarray(a), np.asarray(b)
    return a.dtype == b.dtype and a.shape == b.shape and np.array_equal(a, b, equal_nan=True)


# ---------------------------------------------------------------- observation

PUBLIC = {
    'cpa': ('ex', 'ex2', 'ey', 'ey2', 'exy'),
    'dpa': ('accumulator_traces', 'accumulator_ones', 'processed_ones'),
    'part': ('sum', 'sum_square', 'counters'),
    'mia': ('accumulators',),
    'tpl': (),
}


def observe(d, family):
    """Everything a user can see: the count, the documented accumulators, and what compute returns (or raises)."""
    obs = {'processed_traces': d.processed_traces}
    for name in PUBLIC[family]:
        obs[name] = np.copy(getattr(d, name)) if hasattr(d, name) else None
    if getattr(d, 'partitions', None) is not None:
        obs['partitions'] = np.copy(d.partitions)
    try:
        with np.errstate(all='ignore'):
            obs['compute'] = np.copy(d.compute())
    except scared.DistinguisherError:
        obs['compute'] = 'DistinguisherError'
    return obs


def compare(label, got, expected):
    if got.keys() != expected.keys():
        fail(f'{label}: observed attributes {sorted(got)} != {sorted(expected)}')
        return
    for k in got:
        g, e = got[k], expected[k]
        if isinstance(g, str) or isinstance(e, str) or g is None or e is None:
            ok = (g is None and e is None) or (isinstance(g, str) and isinstance(e, str) and g == e)
        elif k == 'processed_traces':
            ok = g == e
        else:
            ok = same(g, e)
        if not ok:
            fail(f'{label}: {k} differs from the twin fed with accepted batches only')


def digest_obs(obs):
    for k in sorted(obs):
        v = obs[k]
        digest.update(k.encode())
        if v is None or isinstance(v, str):
            digest.update(repr(v).encode())
        else:
            note(v)


# ---------------------------------------------------------------- independent references

def cpa_reference(batches, precision):
    t = np.concatenate([b[0] for b in batches]).astype('float64')
    y = np.concatenate([b[1].reshape(len(b[1]), -1) for b in batches]).astype('float64')
    return {
        'ex': t.sum(0).astype(precision), 'ex2': (t ** 2).sum(0).astype(precision),
        'ey': y.sum(0).astype(precision), 'ey2': (y ** 2).sum(0).astype(precision),
        'exy': (y.T @ t).astype(precision),
    }


def dpa_reference(batches, precision):
    t = np.concatenate([b[0] for b in batches]).astype('float64')
    y = np.concatenate([b[1].reshape(len(b[1]), -1) for b in batches]).astype('float64')
    return {
        'accumulator_traces': t.sum(0).astype(precision),
        'accumulator_ones': (y.T @ t).astype(precision),
        'processed_ones': y.sum(0).astype('uint32'),
    }


def check_reference(label, d, family, accepted, precision):
    if not accepted or family not in ('cpa', 'dpa'):
        return
    ref = (cpa_reference if family == 'cpa' else dpa_reference)(accepted, precision)
    for k, v in ref.items():
        if not same(getattr(d, k), v):
            fail(f'{label}: accumulator {k} is not the sum over accepted batches')
    n = sum(len(b[0]) for b in accepted)
    if d.processed_traces != n:
        fail(f'{label}: processed_traces {d.processed_traces} != {n}')
    if family == 'cpa' and type(d).__name__.startswith('CPADistinguisher'):
        # Pearson correlation, against numpy (values are rounded results: tolerance).
        t = np.concatenate([b[0] for b in accepted]).astype('float64')
        y = np.concatenate([b[1].reshape(len(b[1]), -1) for b in accepted]).astype('float64')
        with np.errstate(all='ignore'):
            res = d.compute().reshape(y.shape[1], t.shape[1])
            for w in range(y.shape[1]):
                for s in range(t.shape[1]):
                    if t[:, s].std() == 0 or y[:, w].std() == 0:
                        continue
                    c = np.corrcoef(y[:, w], t[:, s])[0, 1]
                    if not abs(res[w, s] - c) < (1e-3 if np.dtype(precision) == np.float32 else 1e-9):
                        fail(f'{label}: correlation [{w},{s}] {res[w, s]} != {c}')


# ---------------------------------------------------------------- batches

T = 7  # trace length


def traces_batch(n, length=T, dtype='uint8'):
    return rng.randint(0, 16, (n, length)).astype(dtype)


def data_batch(n, shape, high, dtype='uint8'):
    return rng.randint(0, high, (n,) + shape).astype(dtype)


def rejected_calls(family, words_shape, high, started, auto_partitions=True):
    """(label, traces, data, expected exception types). `started`: whether a batch has already been accepted."""
    n = 5
    calls = [
        ('traces not an array', 'foo', data_batch(n, words_shape, high), (TypeError,)),
        ('traces a list', traces_batch(n).tolist(), data_batch(n, words_shape, high), (TypeError,)),
        ('data not an array', traces_batch(n), None, (TypeError,)),
        ('data a list', traces_batch(n), data_batch(n, words_shape, high).tolist(), (TypeError,)),
        ('different numbers of rows', traces_batch(n), data_batch(n + 1, words_shape, high), (ValueError,)),
        ('fewer traces than rows', traces_batch(n - 2), data_batch(n, words_shape, high), (ValueError,)),
        ('0-d traces', np.array(3, dtype='uint8'), data_batch(n, words_shape, high), (IndexError,)),
        ('1-d traces', np.arange(n, dtype='uint8'), data_batch(n, words_shape, high), (IndexError,)),
        ('empty batch', traces_batch(0), data_batch(0, words_shape, high), (ValueError,)),
    ]
    more_words = (int(np.prod(words_shape)) + 2,)
    if started:
        calls += [
            ('longer traces', traces_batch(n, T + 1), data_batch(n, words_shape, high), (scared.DistinguisherError, ValueError)),
            ('shorter traces', traces_batch(n, T - 3), data_batch(n, words_shape, high), (scared.DistinguisherError, ValueError)),
            ('more data words', traces_batch(n), data_batch(n, more_words, high), (ValueError, scared.DistinguisherError)),
            ('longer traces and more words', traces_batch(n, T + 2), data_batch(n, more_words, high), (scared.DistinguisherError, ValueError)),
        ]
    if family == 'dpa':
        if started:
            calls += [
                ('float data later', traces_batch(n), data_batch(n, words_shape, 2, 'float64'), (TypeError,)),
                ('signed data later', traces_batch(n), data_batch(n, words_shape, 2, 'int16'), (TypeError,)),
                ('float data and more words later', traces_batch(n), data_batch(n, more_words, 2, 'float32'), (TypeError,)),
            ]
        else:
            calls += [
                ('not monobit first', traces_batch(n), data_batch(n, words_shape, 9) + np.uint8(2), (ValueError,)),
                ('float data first', traces_batch(n), data_batch(n, words_shape, 2, 'float64'), (TypeError,)),
                ('int64 data first', traces_batch(n), data_batch(n, words_shape, 2, 'int64'), (TypeError,)),
            ]
    if family in ('part', 'mia', 'tpl') and not started and auto_partitions:
        calls += [
            ('values above 255 without partitions', traces_batch(n), data_batch(n, words_shape, 3, 'uint16') + np.uint16(300), (ValueError,)),
            ('negative values without partitions', traces_batch(n), data_batch(n, words_shape, 3, 'int16') - np.int16(5), (ValueError,)),
        ]
    if family == 'tpl':
        calls += [('two words for a template', traces_batch(n), data_batch(n, (2,), high), (scared.DistinguisherError, ValueError))]
    return calls


class LowMemory:
    """Makes the memory estimation of the first update refuse the batch."""

    def __enter__(self):
        self._orig = dbase.psutil.virtual_memory
        dbase.psutil.virtual_memory = lambda: types.SimpleNamespace(available=1)

    def __exit__(self, *a):
        dbase.psutil.virtual_memory = self._orig


# ---------------------------------------------------------------- scenarios

def run_history(name, factory, family, words_shape, high, precision, n_batches=3, auto_partitions=True):
    accepted_batches = [(traces_batch(4 + i), data_batch(4 + i, words_shape, high)) for i in range(n_batches)]
    # One history per (position of the rejected calls): all kinds of rejection are tried at that position.
    for position in range(n_batches + 1):
        subject, twin = factory(), factory()
        accepted = []
        for i in range(n_batches + 1):
            if i == position:
                started = len(accepted) > 0
                calls = rejected_calls(family, words_shape, high, started, auto_partitions)
                if not started:
                    calls.append(('not enough memory', accepted_batches[0][0], accepted_batches[0][1], (scared.DistinguisherError,)))
                for label, tr, da, excs in calls:
                    where = f'{name}[{precision}] pos {position} "{label}"'
                    try:
                        if label == 'not enough memory':
                            with LowMemory():
                                subject.update(traces=tr, data=da)
                        else:
                            subject.update(traces=tr, data=da)
                    except excs as e:
                        digest.update(type(e).__name__.encode())
                    except Exception as e:
                        fail(f'{where}: unexpected exception {type(e).__name__}: {e}')
                    else:
                        fail(f'{where}: batch was accepted')
                    obs = observe(subject, family)
                    compare(where, obs, observe(twin, family))
                    digest_obs(obs)
                    check_reference(where, subject, family, accepted, precision)
            if i < n_batches:
                tr, da = accepted_batches[i]
                where = f'{name}[{precision}] pos {position} accepted batch {i}'
                try:
                    subject.update(traces=tr, data=da)
                except Exception as e:
                    fail(f'{where}: valid batch refused with {type(e).__name__}: {e}')
                    return
                twin.update(traces=tr, data=da)
                accepted.append((tr, da))
                obs = observe(subject, family)
                compare(where, obs, observe(twin, family))
                digest_obs(obs)
                check_reference(where, subject, family, accepted, precision)


def distinguisher_scenarios():
    for precision in ('float32', 'float64'):
        for words_shape in ((3,), (2, 2), (1,)):
            run_history('CPADistinguisher', lambda: scared.CPADistinguisher(precision=precision), 'cpa', words_shape, 9, precision)
            run_history('CPAAlternativeDistinguisher', lambda: scared.CPAAlternativeDistinguisher(precision=precision), 'cpa', words_shape, 9, precision)
            run_history('DPADistinguisher', lambda: scared.DPADistinguisher(precision=precision), 'dpa', words_shape, 2, precision)
    for cls in (scared.ANOVADistinguisher, scared.NICVDistinguisher, scared.SNRDistinguisher):
        run_history(cls.__name__, lambda: cls(precision='float64'), 'part', (3,), 4, 'float64')
        run_history(cls.__name__ + '/partitions', lambda: cls(partitions=range(4), precision='float64'), 'part', (2, 2), 4, 'float64', n_batches=2, auto_partitions=False)
    run_history('MIADistinguisher', lambda: scared.MIADistinguisher(bins_number=4, bin_edges=np.linspace(0, 16, 5)), 'mia', (2,), 4, 'uint32', n_batches=2)

    class TemplateBuild(scared.distinguishers.partitioned.PartitionedDistinguisherBase, dtemplate._TemplateBuildDistinguisherMixin):
        pass
    run_history('TemplateBuild', lambda: TemplateBuild(precision='float64'), 'tpl', (1,), 4, 'float64', n_batches=2)


def first_call_keeps_constructor_state():
    """A refused first call gives back exactly the attributes of a new object, a later valid call starts the accumulation."""
    for family, factory in (('cpa', scared.CPADistinguisher), ('dpa', scared.DPADistinguisher), ('part', scared.SNRDistinguisher),
                            ('mia', lambda: scared.MIADistinguisher(bins_number=4))):
        d, new = factory(), factory()
        for label, tr, da, excs in rejected_calls(family, (2,), 2, False):
            try:
                d.update(tr, da)
            except Exception:
                pass
            else:
                fail(f'{type(d).__name__} first call "{label}": accepted')
            if sorted(vars(d)) != sorted(vars(new)):
                fail(f'{type(d).__name__} first call "{label}": attributes {sorted(vars(d))} are not those of a new object {sorted(vars(new))}')
            for k, v in vars(new).items():
                if isinstance(v, (int, bool, type(None), np.dtype)) and vars(d)[k] != v:
                    fail(f'{type(d).__name__} first call "{label}": attribute {k} changed')
        tr, da = traces_batch(6), data_batch(6, (2,), 2)
        d.update(tr, da)
        new.update(tr, da)
        if d.processed_traces != 6:
            fail(f'{type(d).__name__}: valid call after refused first calls did not start the accumulation')
        with np.errstate(all='ignore'):
            if not same(d.compute(), new.compute()):
                fail(f'{type(d).__name__}: result after refused first calls differs')
            note(d.compute())


def analysis_scenarios():
    """Same thing through the analysis API: `process` steps which raise are as if they were not made."""

    @scared.attack_selection_function
    def xor(plain, guesses):
        out = np.empty((plain.shape[0], len(guesses), plain.shape[1]), dtype='uint8')
        for i, g in enumerate(guesses):
            out[:, i, :] = np.bitwise_xor(plain, g)
        return out

    def batch(n, rows=None, length=T):
        return types.SimpleNamespace(samples=traces_batch(n, length), metadatas={'plain': data_batch(rows or n, (2,), 16)})

    def make(kind):
        if kind == 'cpa':
            return scared.CPAAttack(selection_function=xor, model=scared.HammingWeight(), discriminant=scared.maxabs, precision='float64')
        return scared.DPAAttack(selection_function=xor, model=scared.Monobit(0), discriminant=scared.maxabs, precision='float64')

    for kind in ('cpa', 'dpa'):
        good = [batch(6), batch(9), batch(5)]
        for position in range(len(good) + 1):
            a, twin = make(kind), make(kind)
            for i in range(len(good) + 1):
                if i == position:
                    bad = [('rows', batch(5, rows=7), (ValueError,)), ('samples', types.SimpleNamespace(samples='x', metadatas=good[0].metadatas), (TypeError,))]
                    if i > 0:
                        bad.append(('length', batch(5, length=T + 4), (scared.DistinguisherError,)))
                    for label, b, excs in bad:
                        where = f'{kind} attack pos {position} "{label}"'
                        try:
                            a.process(b)
                        except excs:
                            pass
                        except Exception as e:
                            fail(f'{where}: unexpected {type(e).__name__}: {e}')
                        else:
                            fail(f'{where}: accepted')
                        compare(where, observe(a, kind), observe(twin, kind))
                if i < len(good):
                    a.process(good[i])
                    twin.process(good[i])
                    obs = observe(a, kind)
                    compare(f'{kind} attack pos {position} batch {i}', obs, observe(twin, kind))
                    digest_obs(obs)
            with np.errstate(all='ignore'):
                a.compute_results()
                twin.compute_results()
            if a.results.shape != (256, 2, T) or not same(a.results, twin.results) or not same(a.scores, twin.scores):
                fail(f'{kind} attack pos {position}: results differ from the twin')
            note(a.results, a.scores)


distinguisher_scenarios()
first_call_keeps_constructor_state()
analysis_scenarios()

if '--digest' in sys.argv:
    print('digest', digest.hexdigest())
print('selfcheck:', 'OK' if not failures else f'{len(failures)} failure(s)')
sys.exit(1 if failures else 0)
