"""Self-check for the R-C08 refactoring (run loop / convergence bookkeeping of BaseAttack).

usage: python selfcheck.py <path-to-source-tree>

Through the public API only (attack classes, Container, set_batch_size, run, compute_results, scores, convergence_traces),
runs attacks with a convergence step over many (N, step, container batch size) triples and run() histories and checks,
against an independent computation (a fresh attack without convergence step on exactly the traces processed so far), that:
  - there is one column per distinct number of processed traces at which compute_results was called, in order,
  - each column equals the scores computed at that point AND the scores of a fresh attack on that prefix of the traces,
  - points are strictly increasing, at least one step after the previous step-triggered point unless they are the remainder of a run,
  - every run ends with a compute_results on all the traces, the last column equals the final scores,
  - final results/scores are those of the same history without convergence step,
  - shape / dtype / type of convergence_traces, arrays handed out by a previous run are never modified afterwards.
Data are small integers and precision is float64 so every accumulator is exact: comparisons are bit for bit
(except for the template attack and the float32 case, compared with a tolerance).
Exit status 0 iff everything holds.
"""
import sys
import os
import warnings

import numpy as np

tree = os.path.abspath(sys.argv[1])
sys.path.insert(0, tree)
import scared  # noqa: E402

assert os.path.abspath(scared.__file__).startswith(tree), scared.__file__
warnings.simplefilter('ignore')

FAILURES = []
CHECKS = [0]


def check(cond, msg):
    CHECKS[0] += 1
    if not cond:
        FAILURES.append(msg)
        if len(FAILURES) <= 25:
            print('FAIL:', msg)


def same(a, b, exact=True):
    a, b = np.asarray(a), np.asarray(b)
    if a.shape != b.shape:
        return False
    if exact:
        return np.array_equal(a, b, equal_nan=True)
    return np.allclose(a, b, rtol=1e-5, atol=1e-6, equal_nan=True)


G = 6


@scared.attack_selection_function(guesses=range(G))
def sf(plaintext, guesses):
    res = np.empty((plaintext.shape[0], len(guesses), 2), dtype='uint8')
    for i, g in enumerate(guesses):
        res[:, i, :] = np.bitwise_xor(plaintext[:, :2], g) & 0x0f
    return res


@scared.reverse_selection_function
def rsf(plaintext):
    return plaintext[:, 0] & 0x03


@scared.attack_selection_function(guesses=range(4), words=0)
def tsf(plaintext, guesses):
    res = np.empty((plaintext.shape[0], len(guesses), 1), dtype='uint8')
    for i, g in enumerate(guesses):
        res[:, i, 0] = np.bitwise_xor(plaintext[:, 0], g) & 0x03
    return res


rng = np.random.RandomState(20240608)


def make_ths(n, length=5):
    plaintext = rng.randint(0, 256, (n, 4)).astype('uint8')
    leak = np.array([bin(v & 0x0f).count('1') for v in plaintext[:, 0] ^ 3], dtype='int64')
    samples = rng.randint(0, 8, (n, length)).astype('uint8')
    samples[:, 1] += (3 * leak).astype('uint8')
    return scared.traces.formats.read_ths_from_ram(samples=samples, plaintext=plaintext)


def concat(thss):
    return scared.traces.formats.read_ths_from_ram(
        samples=np.concatenate([t.samples[:] for t in thss]),
        plaintext=np.concatenate([t.plaintext for t in thss]))


BUILD = scared.Container(make_ths(400))


def factories():
    def std(klass, model, precision='float64', disc=scared.maxabs):
        return lambda step: klass(selection_function=sf, model=model, discriminant=disc, precision=precision, convergence_step=step)

    def template(step):
        a = scared.TemplateDPAAttack(container_building=BUILD, reverse_selection_function=rsf, selection_function=tsf,
                                     model=scared.Value(), convergence_step=step, precision='float64')
        a.build()
        return a
    return {
        'CPA': (scared.CPAAttack, std(scared.CPAAttack, scared.HammingWeight()), True),
        'DPA': (scared.DPAAttack, std(scared.DPAAttack, scared.Monobit(1), disc=scared.nanmax), True),
        'ANOVA': (scared.ANOVAAttack, std(scared.ANOVAAttack, scared.HammingWeight()), True),
        'NICV': (scared.NICVAttack, std(scared.NICVAttack, scared.HammingWeight()), True),
        'SNR': (scared.SNRAttack, std(scared.SNRAttack, scared.HammingWeight()), True),
        # Explicit bin edges: by default they are derived from the first batch, which a fresh attack on a prefix does not share.
        'MIA': (scared.MIAAttack, lambda step: scared.MIAAttack(
            bin_edges=np.linspace(0, 24, 13), selection_function=sf, model=scared.HammingWeight(), discriminant=scared.maxabs,
            precision='float64', convergence_step=step), True),
        'CPA32': (scared.CPAAttack, std(scared.CPAAttack, scared.HammingWeight(), precision='float32'), False),
        'TemplateDPA': (scared.TemplateDPAAttack, template, False),
    }


def recording(attack):
    """Record (processed_traces, scores) at each compute_results, through the public method only."""
    klass = type(attack)

    class Recording(klass):
        def compute_results(self):
            super().compute_results()
            self.events.append((self.processed_traces, np.array(self.scores, copy=True)))
    attack.events = []
    attack.__class__ = Recording
    return attack


_prefix_cache = {}


def prefix_scores(name, make, all_ths, key, p):
    k = (name, key, p)
    if k not in _prefix_cache:
        scared.set_batch_size(None)
        fresh = make(None)
        fresh.run(scared.Container(all_ths[:p]))
        check(fresh.convergence_traces is None, f'{name}: convergence traces without convergence step')
        _prefix_cache[k] = (np.array(fresh.scores, copy=True), np.array(fresh.results, copy=True))
    return _prefix_cache[k]


def check_history(name, make, exact, thss, all_ths, key, step, batch_sizes):
    label = f'{name} sizes={[len(t) for t in thss]} step={step} batch={batch_sizes}'
    attack = recording(make(step))
    check(attack.convergence_step == step and attack.convergence_traces is None and attack.scores is None, f'{label}: initial state')
    run_ends, total = [], 0
    handed_out = []
    for ths, bs in zip(thss, batch_sizes):
        scared.set_batch_size(bs)
        attack.run(scared.Container(ths))
        total += len(ths)
        run_ends.append(total)
        check(attack.processed_traces == total, f'{label}: processed_traces {attack.processed_traces} != {total}')
        check(attack.events and attack.events[-1][0] == total, f'{label}: no final compute_results at {total}')
        ct = attack.convergence_traces
        check(isinstance(ct, np.ndarray), f'{label}: convergence_traces is {type(ct)}')
        check(same(ct[..., -1], attack.scores, True), f'{label}: last column != scores after run ending at {total}')
        for old, snapshot in handed_out:
            check(same(old, snapshot, True), f'{label}: an array handed out by a previous run was modified')
            check(same(ct[..., :old.shape[-1]], snapshot, True), f'{label}: earlier columns changed')
        handed_out.append((ct, ct.copy()))
    scared.set_batch_size(None)

    ct = attack.convergence_traces
    points = []
    by_point = {}
    for p, s in attack.events:
        if not points or points[-1] != p:
            check(not points or p > points[-1], f'{label}: compute_results points not increasing {points} {p}')
            points.append(p)
        check(p not in by_point or same(by_point[p], s, True), f'{label}: scores differ between two computes at {p}')
        by_point[p] = s
    check(ct.shape == attack.scores.shape + (len(points), ), f'{label}: shape {ct.shape}, points {points}')
    check(ct.dtype == np.result_type(attack.precision, attack.scores.dtype), f'{label}: dtype {ct.dtype}')
    if ct.shape[-1] != len(points):
        return
    mark = 0
    for j, p in enumerate(points):
        if p - mark >= step:
            mark = p
        else:
            check(p in run_ends, f'{label}: point {p} less than one step after {mark} and not a remainder {points}')
        check(same(ct[..., j], by_point[p], True), f'{label}: column {j} is not the scores computed at {p}')
        ref_scores, _ = prefix_scores(name, make, all_ths, key, p)
        check(same(ct[..., j], ref_scores, exact), f'{label}: column {j} != fresh attack on the first {p} traces')
    check(points[-1] == total, f'{label}: last point {points[-1]} != {total}')
    ref_scores, ref_results = prefix_scores(name, make, all_ths, key, total)
    check(same(attack.scores, ref_scores, exact), f'{label}: final scores changed by convergence')
    check(same(attack.results, ref_results, exact), f'{label}: final results changed by convergence')


def main():
    facts = factories()
    single = {n: make_ths(n) for n in (1, 7, 50, 64, 100)}
    multi = [[make_ths(10), make_ths(33), make_ths(7)], [make_ths(40), make_ths(40)], [make_ths(3), make_ths(3), make_ths(3), make_ths(30)]]
    multi_all = [concat(m) for m in multi]
    steps = (1, 3, 7, 10, 25, 64, 150)
    batches = (3, 4, 10, 25, None)
    for name, (klass, make, exact) in facts.items():
        # Partitioned and template attacks compile numba kernels per instance: they get a reduced grid.
        light = name not in ('CPA', 'DPA')
        for n, ths in single.items():
            if light and n != 50:
                continue
            for step in steps:
                if step == 1 and (n > 50 or light):
                    continue
                for bs in batches:
                    if light and (bs not in (4, None) or step in (3, 150)):
                        continue
                    check_history(name, make, exact, [ths], ths, ('s', n), step, [bs])
                # same container run twice
                if n in (7, 50) and not light:
                    check_history(name, make, exact, [ths, ths], concat([ths, ths]), ('d', n), step, [4, 10])
        for i, (m, m_all) in enumerate(zip(multi, multi_all)):
            if light and i != 0:
                continue
            for step in (2, 7, 10, 25):
                for bss in ([3] * len(m), [None] * len(m), [4, 3, 10, 25][:len(m)]):
                    if light and (bss[0] != 4 or step in (2, 25)):
                        continue
                    check_history(name, make, exact, m, m_all, ('m', i), step, bss)
        print(f'{name}: done ({CHECKS[0]} checks so far, {len(FAILURES)} failures)', flush=True)

    # Validation of the public argument is unchanged.
    for bad, exc in (('foo', TypeError), (0, ValueError), (-12, ValueError), (2.0, TypeError)):
        try:
            facts['CPA'][1](bad)
            check(False, f'convergence_step={bad!r} accepted')
        except exc:
            check(True, '')
    try:
        facts['CPA'][1](5).run('foo')
        check(False, 'run accepted a non container')
    except TypeError:
        check(True, '')

    # Reverse analyses share the run loop.
    rev = scared.CPAReverse(selection_function=scared.selection_function(lambda plaintext: plaintext[:, :2] & 0x0f), model=scared.HammingWeight(), precision='float64')
    ths = single[50]
    scared.set_batch_size(7)
    rev.run(scared.Container(ths))
    scared.set_batch_size(None)
    rev2 = scared.CPAReverse(selection_function=scared.selection_function(lambda plaintext: plaintext[:, :2] & 0x0f), model=scared.HammingWeight(), precision='float64')
    rev2.run(scared.Container(ths))
    check(rev.processed_traces == 50 and same(rev.results, rev2.results, True), 'reverse analysis results depend on batch size')

    print(f'{CHECKS[0]} checks, {len(FAILURES)} failures')
    return 1 if FAILURES else 0


if __name__ == '__main__':
    sys.exit(main())
