"""Self-check for refactoring R-C14 (template build / matching).

usage: python selfcheck.py <path-to-source-tree> [--digest] [--pin-kernel=N] [--verbose]

Exercises TemplateAttack / TemplateDPAAttack through the public API on several building / matching
sets, batch sizes, class sets, trace lengths and precisions, and compares templates, pooled covariance,
pseudo-inverse and scores with an independent float64 computation (class means, average over declared
classes of unbiased within-class covariances, 10 - mean over traces and samples of squared Mahalanobis
distance). Exits 0 iff everything is as expected. With --digest, also prints a sha256 of every observed
result so that two trees can be compared for bit-identity (use --pin-kernel=1 or --pin-kernel=2 to make the
digest independent of the timing based choice of the accumulation kernel; --verbose prints one hash per result).
"""
import hashlib
import sys
import warnings

import numpy as np

tree = sys.argv[1]
sys.path.insert(0, tree)
import scared  # noqa: E402

assert scared.__file__.startswith(tree.rstrip('/')), (scared.__file__, tree)
warnings.simplefilter('ignore')

digest = hashlib.sha256()
failures = []
nchecks = 0


def observe(name, arr):
    arr = np.ascontiguousarray(arr)
    digest.update(name.encode())
    digest.update(str(arr.dtype).encode() + str(arr.shape).encode())
    digest.update(arr.tobytes())
    if '--verbose' in sys.argv:
        print('  obs', name, hashlib.sha256(arr.tobytes()).hexdigest()[:16])


def check(cond, msg):
    global nchecks
    nchecks += 1
    if not cond:
        failures.append(msg)
        print('FAIL:', msg)


def close(a, b, rtol, atol):
    return np.allclose(np.asarray(a, dtype='float64'), np.asarray(b, dtype='float64'), rtol=rtol, atol=atol, equal_nan=True)


def ref_profile(samples, labels, classes):
    """Independent reference: two-pass float64 class means and pooled unbiased covariance."""
    x = samples.astype('float64')
    d = x.shape[1]
    means = np.zeros((len(classes), d))
    pooled = np.zeros((d, d))
    for k, c in enumerate(classes):
        xc = x[labels == c]
        if len(xc) >= 1:
            means[k] = xc.mean(axis=0)
        if len(xc) >= 2:
            centered = xc - means[k]
            pooled += centered.T @ centered / (len(xc) - 1)
    pooled /= len(classes)
    return means, pooled


def ref_scores(samples, template_positions, means, pinv):
    """template_positions: (n_traces, n_candidates) class positions."""
    x = samples.astype('float64')
    n, d = x.shape
    out = np.zeros(template_positions.shape[1])
    for j in range(template_positions.shape[1]):
        diff = x - means[template_positions[:, j]]
        out[j] = 10 - np.einsum('nd,de,ne->', diff, pinv, diff) / (n * d)
    return out


def make_ths(samples, labels, guesses=None):
    kw = {'label': labels.reshape(-1, 1)}
    if guesses is not None:
        kw['guess'] = guesses
    return scared.traces.formats.read_ths_from_ram(samples=samples, **kw)


rsf = scared.selection_function(lambda label: label, words=0)


DPA_TABLE = None
PIN_KERNEL = next((a.split('=')[1] for a in sys.argv if a.startswith('--pin-kernel=')), None)


def run_case(name, rng, n_build, n_match, d, classes, precision, sample_dtype, batch_build, batch_match, declared='explicit',
             integer_data=True, unbalanced=True, nb_runs=1, nb_builds=1, convergence_step=None):
    global DPA_TABLE
    classes = np.asarray(classes)
    tol = dict(rtol=2e-3, atol=2e-3) if precision == 'float32' else dict(rtol=1e-7, atol=1e-7)
    # --- data
    probs = np.ones(len(classes))
    if unbalanced:
        probs = rng.random(len(classes)) ** 2 + 0.02
    probs /= probs.sum()
    lab_dtype = 'uint8' if classes.max() < 256 else 'uint16'
    build_labels = classes[rng.choice(len(classes), size=n_build, p=probs)].astype(lab_dtype)
    if unbalanced and len(classes) > 3:
        # class at position 1: no trace at all, class at position 2: exactly one trace
        build_labels[build_labels == classes[1]] = classes[0]
        build_labels[build_labels == classes[2]] = classes[0]
        build_labels[0] = classes[2]
    class_shift = rng.integers(0, 40, size=(int(classes.max()) + 1, d))
    if integer_data:
        build_samples = (rng.integers(0, 60, (n_build, d)) + class_shift[build_labels]).astype(sample_dtype)
        match_noise = rng.integers(0, 60, (n_match, d))
    else:
        build_samples = (rng.normal(0, 3, (n_build, d)) + class_shift[build_labels]).astype(sample_dtype)
        match_noise = rng.normal(0, 3, (n_match, d))
    match_labels = classes[rng.integers(0, len(classes), n_match)].astype(lab_dtype)
    match_samples = (match_noise + class_shift[match_labels]).astype(sample_dtype)
    match_guess = rng.integers(0, 256, (n_match, 1)).astype('uint8')
    n_candidates = 5
    DPA_TABLE = classes[rng.integers(0, len(classes), 64)].astype(lab_dtype)

    partitions = {'explicit': classes, 'range': None, 'list': None}[declared]
    if declared == 'list':
        partitions = [int(c) for c in classes]
    if declared == 'range':
        partitions = None  # auto: classes must be a prefix-compatible set (0..8, 0..63 or 0..255)
    ref_classes = classes
    if declared == 'range':
        m = int(build_labels[:min(batch_build, n_build)].max())
        ref_classes = np.arange([r for r in (9, 64, 256) if m <= r][0])
    means, pooled = ref_profile(build_samples, build_labels, ref_classes)
    pinv = np.linalg.pinv(pooled)
    lut = {int(c): k for k, c in enumerate(ref_classes)}

    build_cont = scared.Container(make_ths(build_samples, build_labels))
    match_cont = scared.Container(make_ths(match_samples, match_labels, match_guess))

    dpa_sf = scared.attack_selection_function(
        lambda guess, guesses: DPA_TABLE[(guess.astype('int64')[:, None, :] + np.asarray(list(guesses), dtype='int64')[None, :, None]) % len(DPA_TABLE)],
        guesses=range(n_candidates), words=0)

    for klass in (scared.TemplateAttack, scared.TemplateDPAAttack):
        tag = f'{name}/{klass.__name__}'
        kwargs = dict(container_building=build_cont, reverse_selection_function=rsf, model=scared.Value(),
                      partitions=partitions, precision=precision, convergence_step=convergence_step)
        if klass is scared.TemplateDPAAttack:
            kwargs['selection_function'] = dpa_sf
        att = klass(**kwargs)
        if PIN_KERNEL:
            # (as the repository tests do) force one accumulation kernel, so that float data digests do not depend on timings
            kernel = getattr(att._build_analysis, f'_accumulate_core_{PIN_KERNEL}')
            att._build_analysis._accumulate_core_1 = att._build_analysis._accumulate_core_2 = kernel
        check(att.is_build is False, f'{tag}: is_build is False before build')

        # matching before build is refused, and does not spoil the object
        scared.container.set_batch_size(batch_match)
        try:
            att.run(match_cont)
            check(False, f'{tag}: run before build not refused')
        except scared.DistinguisherError:
            check(True, '')
        check(att.processed_traces == 0, f'{tag}: processed_traces after refused run')
        check(att.scores is None, f'{tag}: scores after refused run')

        scared.container.set_batch_size(batch_build)
        for b in range(nb_builds):
            att.build()
        check(att.is_build is True, f'{tag}: is_build after build')
        check(np.array_equal(att.partitions, ref_classes), f'{tag}: partitions {att.partitions}')
        means_b, pooled_b, pinv_b = means, pooled, pinv
        if nb_builds > 1:
            # the profiling state is cumulative: building twice is building on the set seen twice
            means_b, pooled_b = ref_profile(np.vstack([build_samples] * nb_builds), np.concatenate([build_labels] * nb_builds), ref_classes)
            pinv_b = np.linalg.pinv(pooled_b)
        check(att.templates.shape == means_b.shape and att.templates.dtype == np.dtype(precision), f'{tag}: templates shape/dtype')
        check(close(att.templates, means_b, **tol), f'{tag}: templates are class means')
        check(att.pooled_covariance.shape == pooled_b.shape and att.pooled_covariance.dtype == np.float64, f'{tag}: pooled cov shape/dtype')
        scale = max(1.0, np.abs(pooled_b).max())
        check(close(att.pooled_covariance / scale, pooled_b / scale, **tol), f'{tag}: pooled covariance')
        check(np.array_equal(att.pooled_covariance_inv, np.linalg.pinv(att.pooled_covariance)), f'{tag}: pooled_covariance_inv is pinv of pooled_covariance')
        if integer_data:
            # sums are exact integers: means must be the correctly rounded quotient
            cnt = np.array([(build_labels == c).sum() for c in ref_classes]) * nb_builds
            sums = np.array([build_samples[build_labels == c].astype('float64').sum(0) for c in ref_classes]) * nb_builds
            exact = (sums.astype(precision) / np.maximum(cnt, 1).astype(precision)[:, None])
            check(np.array_equal(att.templates, exact), f'{tag}: templates bit-exact on integer data')
        observe(tag + '/templates', att.templates)
        observe(tag + '/pooled', att.pooled_covariance)
        observe(tag + '/pinv', att.pooled_covariance_inv)

        # wrong trace length refused
        if d > 1:
            scared.container.set_batch_size(batch_match)
            try:
                att.run(scared.Container(make_ths(match_samples, match_labels, match_guess), frame=slice(0, d - 1)))
                check(False, f'{tag}: wrong trace length not refused')
            except scared.DistinguisherError:
                check(True, '')
            check(att.processed_traces == 0, f'{tag}: processed_traces after refused length')

        # matching
        scared.container.set_batch_size(batch_match)
        for r in range(nb_runs):
            att.run(match_cont)
        if klass is scared.TemplateAttack:
            pos = np.tile(np.arange(len(ref_classes)), (n_match, 1))
        else:
            hyp = dpa_sf(guess=match_guess)
            pos = np.vectorize(lut.get)(hyp)
        # reference uses the profile really held by the attack (float64 maths), and the ideal one with loose tolerance
        exp = ref_scores(match_samples, pos, att.templates.astype('float64'), att.pooled_covariance_inv)
        mtol = dict(rtol=5e-3, atol=5e-3) if precision == 'float32' else dict(rtol=1e-9, atol=1e-9)
        sc = max(1.0, np.abs(exp).max())
        check(att.scores.shape == exp.shape, f'{tag}: scores shape {att.scores.shape} vs {exp.shape}')
        check(att.scores.dtype == np.dtype(precision), f'{tag}: scores dtype {att.scores.dtype}')
        check(close(att.scores / sc, exp / sc, **mtol), f'{tag}: scores = 10 - mean squared Mahalanobis distance\n{att.scores}\n{exp}')
        check(att.processed_traces == n_match * nb_runs, f'{tag}: processed_traces {att.processed_traces}')
        check(np.array_equal(att.scores, att.results), f'{tag}: scores == results')
        check(np.all(att.scores <= 10 + 1e-3), f'{tag}: scores are at most 10')
        if convergence_step:
            check(att.convergence_traces is not None and att.convergence_traces.shape[0] == exp.shape[0], f'{tag}: convergence traces')
            check(att.convergence_traces.shape[-1] == n_match // convergence_step, f'{tag}: number of convergence steps')
            check(np.array_equal(att.convergence_traces[..., -1], att.scores), f'{tag}: last convergence step is the final score')
            observe(tag + '/conv', att.convergence_traces)
        observe(tag + '/scores', att.scores)

        # get_template_index public helper
        if klass is scared.TemplateAttack:
            check(att.get_template_index(None, 3) == 3, f'{tag}: get_template_index static')
        else:
            hyp = dpa_sf(guess=match_guess)
            check(np.array_equal(att.get_template_index(hyp, 2), pos[:, 2]), f'{tag}: get_template_index dpa')
    scared.container.set_batch_size(None)


rng = np.random.default_rng(20240914)
run_case('A-small-int-f32', rng, n_build=400, n_match=60, d=4, classes=range(9), precision='float32', sample_dtype='uint8',
         batch_build=100, batch_match=25)
run_case('B-sparse-classes-f64', rng, n_build=600, n_match=90, d=7, classes=range(0, 18, 2), precision='float64', sample_dtype='uint8',
         batch_build=250, batch_match=90)
run_case('C-float-traces-f64', rng, n_build=500, n_match=40, d=5, classes=[3, 1, 7, 200, 12], precision='float64', sample_dtype='float32',
         batch_build=500, batch_match=7, integer_data=False)
run_case('D-len1-f32', rng, n_build=300, n_match=33, d=1, classes=range(4), precision='float32', sample_dtype='int16',
         batch_build=64, batch_match=11, declared='list')
run_case('E-auto-partitions-f64', rng, n_build=800, n_match=48, d=3, classes=range(9), precision='float64', sample_dtype='uint8',
         batch_build=200, batch_match=16, declared='range', unbalanced=False)
run_case('F-two-runs-two-builds-f64', rng, n_build=350, n_match=30, d=6, classes=range(0, 12, 3), precision='float64', sample_dtype='uint16',
         batch_build=50, batch_match=10, nb_runs=2, nb_builds=2)
run_case('G-convergence-f32', rng, n_build=700, n_match=64, d=8, classes=range(16), precision='float32', sample_dtype='uint8',
         batch_build=350, batch_match=64, convergence_step=16, unbalanced=True)
run_case('H-many-classes-long-f64', rng, n_build=3000, n_match=20, d=24, classes=range(64), precision='float64', sample_dtype='float64',
         batch_build=1000, batch_match=20, integer_data=False)

print(f'{nchecks} checks, {len(failures)} failures')
if '--digest' in sys.argv:
    print('digest', digest.hexdigest())
sys.exit(1 if failures else 0)
