"""Determinism self-test: N seeds per property, each executed
  - twice in one process (cold then warm),
  - again in fresh interpreters under another PYTHONHASHSEED, spread over 16 workers,
  - again in one fresh interpreter (1 worker) under a third PYTHONHASHSEED;
event-log digests must be identical.  usage: determinism.py [N] [props...]   exit 0 iff all equal."""
import json, os, shutil, subprocess, sys, time
V = os.path.dirname(os.path.dirname(os.path.abspath(__file__)))
sys.path.insert(0, V)
from sim import env, registry
N = int(sys.argv[1]) if len(sys.argv) > 1 else 200
props = sys.argv[2:] or sorted(registry.ENGINE_OF)
PY = sys.executable
W = os.path.join(V, 'sim', 'worker.py')
bad = 0
for prop in props:
    t0 = time.time()
    scratch = os.path.join(V, '.cache', 'run', 'det-%s-%d' % (prop, os.getpid()))
    shutil.rmtree(scratch, ignore_errors=True)
    os.makedirs(scratch)
    procs = []
    def spawn(tag, k, Wn, hashseed, extra=None):
        e = env.child_env({'NUMBA_NUM_THREADS': '16', 'PYTHONHASHSEED': hashseed})
        e.update(extra or {})
        out = os.path.join(scratch, '%s%d.jsonl' % (tag, k))
        p = subprocess.Popen([PY, W, 'run', prop, 'quick', '0', str(k), str(Wn), str(N), out], env=e, cwd=V,
                             stdout=open(out + '.log', 'w'), stderr=subprocess.STDOUT)
        procs.append((tag, p, out))
    # A: 4 processes, each index twice in-process; B: 16 workers other hash seed; C: 1 worker third hash seed (only first N/4 to bound time)
    for k in range(4):
        spawn('A', k, 4, '0', {'VERIF_REPEAT': '1'})
    for k in range(16):
        spawn('B', k, 16, '4242')
    e = {'VERIF_INDICES': ','.join(map(str, range(0, N, 4)))}
    spawn('C', 0, 1, '99', e)
    dig = {}
    for tag, p, out in procs:
        rc = p.wait()
        if rc != 0:
            print('HARNESS-ERROR worker', tag, rc, open(out + '.log').read()[-500:]); bad += 1
        for line in open(out):
            r = json.loads(line)
            if 'i' not in r:
                continue
            if r.get('harness_error'):
                print('HARNESS-ERROR', prop, r['i'], r['harness_error']); bad += 1; continue
            dig.setdefault(r['i'], {})[tag] = r['digest']
            if 'digest_again' in r:
                dig[r['i']][tag + '2'] = r['digest_again']
    mism = [(i, d) for i, d in sorted(dig.items()) if len(set(d.values())) != 1]
    full = sum(1 for d in dig.values() if len(d) >= 3)
    print('%s: %d seeds, %d compared in >=3 executions, %d mismatches, %.0fs' % (prop, len(dig), full, len(mism), time.time() - t0))
    for i, d in mism[:5]:
        print('   MISMATCH run %d: %s' % (i, d))
    bad += len(mism)
    shutil.rmtree(scratch, ignore_errors=True)
sys.exit(1 if bad else 0)
