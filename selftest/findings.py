"""Self-test: every 'fixed' finding replays as a violation on the tree just before its fix commit
and no longer violates on the current /repo tree.  Scratch worktrees live under /var/tmp and are removed."""
import json, os, shutil, subprocess, sys
V = os.path.dirname(os.path.dirname(os.path.abspath(__file__)))
K = json.load(open(os.path.join(V, 'known_findings.json')))['findings']
ok = True
trees = {}
try:
    for f in K:
        if f.get('status') != 'fixed':
            continue
        c = f['commit']
        if c not in trees:
            d = '/var/tmp/verif-pre-%s' % c
            subprocess.run(['git', '-C', '/repo', 'worktree', 'remove', '--force', d], capture_output=True)
            subprocess.run(['git', '-C', '/repo', 'worktree', 'add', '--detach', d, c + '^'], check=True, capture_output=True)
            trees[c] = d
        for key in ('replay', 'replay_2'):
            if key not in f:
                continue
            path = os.path.join(V, f[key])
            pre = subprocess.run([sys.executable, os.path.join(V, 'sim', 'replay.py'), path], env=dict(os.environ, VERIF_REPO=trees[c]), capture_output=True, text=True)
            cur = subprocess.run([sys.executable, os.path.join(V, 'sim', 'replay.py'), path], env={k: v for k, v in os.environ.items() if k != 'VERIF_REPO'}, capture_output=True, text=True)
            good = pre.returncode == 1 and 'reproduced (identical event log)' in pre.stdout and cur.returncode == 0
            ok &= good
            print('%s %-8s %s: before fix exit=%d, current tree exit=%d' % ('ok  ' if good else 'FAIL', f['id'], f[key], pre.returncode, cur.returncode))
            if not good:
                print(pre.stdout[-600:], cur.stdout[-600:])
finally:
    for d in trees.values():
        subprocess.run(['git', '-C', '/repo', 'worktree', 'remove', '--force', d], capture_output=True)
        shutil.rmtree(d, ignore_errors=True)
    # drop the numba caches of the scratch trees
    sys.path.insert(0, V)
sys.exit(0 if ok else 1)
