"""Sensitivity self-test: break the property on purpose in a scratch copy and confirm the quick check reports it;
equivalent-refactoring controls must stay silent.

usage: sensitivity.py [--list] [--seeded] [ids ...]
  own catalogue: textual replacements below; --seeded: every /verif/seeded/<id>/patch.diff (git apply).
Scratch worktrees live under /var/tmp (VERIF_SCRATCH) and are removed, with their numba cache, right after use.
"""
import glob
import json
import os
import shutil
import subprocess
import sys
import time

V = os.path.dirname(os.path.dirname(os.path.abspath(__file__)))
sys.path.insert(0, V)
SCRATCH = os.environ.get('VERIF_SCRATCH', '/var/tmp')

# (id, property checks expected to alarm, file, old, new)   expected [] = control: every listed check must stay silent
M = []


def mut(mid, props, path, old, new, controls=()):
    M.append({'id': mid, 'props': list(props), 'file': path, 'old': old, 'new': new, 'controls': list(controls)})


# ---- C01
mut('c01-cpa-overwrite-ex2', ['C01'], 'scared/distinguishers/cpa.py',
    "self.ex2 += _np.sum(_traces ** 2, axis=0)", "self.ex2 = self.ex2 * 0 + _np.sum(_traces ** 2, axis=0)")
mut('c01-partitioned-no-swap-back', ['C01'], 'scared/distinguishers/partitioned.py',
    "            result[i] = tmp_result.astype(self.precision)\n\n        self.sum = self.sum.swapaxes(0, 1)\n        self.sum_square = self.sum_square.swapaxes(0, 1)\n",
    "            result[i] = tmp_result.astype(self.precision)\n\n        self.sum = self.sum.swapaxes(0, 1)\n")
mut('c01-ttacc-count-assign', ['C01', 'C09'], 'scared/ttest.py',
    "        self.processed_traces += traces.shape[0]", "        self.processed_traces = traces.shape[0]")
mut('c01-dpa-ones-first-batch-only', ['C01'], 'scared/distinguishers/dpa.py',
    "        self.processed_ones += _np.sum(data, axis=0)", "        if not self.processed_ones.any():\n            self.processed_ones += _np.sum(data, axis=0)")
# (until fix 262809e this slot held "compute() aliases the counters"; the in-place write it relied on is gone, see seeded/C01-a)
mut('c01-tbuild-compute-normalises-sums-in-place', ['C01'], 'scared/distinguishers/template.py',
    "        templates = (self._exi.swapaxes(0, 1) / _np.maximum(tmp_counters, 1)).swapaxes(0, 1)\n",
    "        self._exi = (self._exi.swapaxes(0, 1) / _np.maximum(tmp_counters, 1)).swapaxes(0, 1)\n        templates = self._exi\n")
# ---- C02
mut('c02-drop-tail-of-one', ['C02'], 'scared/container.py',
    "        if len(ths) % batch_size != 0:", "        if len(ths) % batch_size > 1:")
mut('c02-frame-after-preprocess', ['C02'], 'scared/container.py',
    "        samples = self.ths.samples[:, self.frame]\n        for preprocess in self.preprocesses:\n            samples = preprocess(samples)\n        return samples",
    "        samples = self.ths.samples[:]\n        for preprocess in self.preprocesses:\n            samples = preprocess(samples)\n        return samples[:, self.frame] if self.preprocesses else self.ths.samples[:, self.frame]")
mut('c02-overlapping-slices', ['C02'], 'scared/container.py',
    "            slice(start * batch_size, (start + 1) * batch_size, 1)\n            for start in range(len(ths) // batch_size)",
    "            slice(start * batch_size, (start + 1) * batch_size + (1 if start == 2 else 0), 1)\n            for start in range(len(ths) // batch_size)")
mut('c02-stale-scores', ['C02', 'C08'], 'scared/analysis/base.py',
    "        super().compute_results()\n        self.scores = self.discriminant(self.results)",
    "        super().compute_results()\n        if self.scores is None or self.convergence_step is None:\n            self.scores = self.discriminant(self.results)")
# ---- C08
mut('c08-always-final-column', ['C08'], 'scared/analysis/base.py',
    "        if self.convergence_step and len(self._batches_processed) > 1:", "        if self.convergence_step and len(self._batches_processed) >= 1:")
# ---- C09
mut('c09-shared-slot', ['C09'], 'scared/ttest.py',
    "                samples = batch.samples[:]\n                self.update(samples)",
    "                _SHARED['samples'] = batch.samples[:]\n                self.update(_SHARED['samples'])")
mut('c09-join-swallows', ['C09'], 'scared/ttest.py',
    "        super().join()\n        if self._exception is not None:\n            raise self._exception",
    "        super().join()\n        if self._exception is not None and self.processed_traces == 0:\n            raise self._exception")
mut('c09-sample-variance', ['C09'], 'scared/ttest.py',
    "        self.var = self.sum_squared / self.processed_traces - self.mean ** 2",
    "        self.var = (self.sum_squared / self.processed_traces - self.mean ** 2) * (self.processed_traces / max(self.processed_traces - 1, 1))")
# ---- C11
mut('c11-kernel2-foreign-to-last-class', ['C11'], 'scared/distinguishers/partitioned.py',
    "            tmp_bool = data == p  # Data are already transformed to correspond to partition indexes.",
    "            tmp_bool = (data == p) | ((data == -1) & (p == self_counters.shape[1] - 1))")
mut('c11-kernel1-counts-every-sample', ['C11'], 'scared/distinguishers/partitioned.py',
    "                        if sample_idx == 0:\n                            self_counters[data_idx, data_value] += 1",
    "                        if sample_idx <= 1:\n                            self_counters[data_idx, data_value] += 1")
mut('c11-template-kernel2-counts-float', ['C11'], 'scared/distinguishers/template.py',
    "            self_counters[p] += b.sum()", "            self_counters[p] += b.sum() if p > 0 else b.sum() + (data[:, 0] == -1).sum()")
# ---- C14
mut('c14-n-for-n-minus-1', ['C14'], 'scared/distinguishers/template.py',
    "            self.pooled_covariance += (self._exxi[i] - tmp_matrix) / (tmp_counters[i] - 1)",
    "            self.pooled_covariance += (self._exxi[i] - tmp_matrix) / (tmp_counters[i])")
mut('c14-score-not-divided-by-length', ['C14'], 'scared/distinguishers/template.py',
    "        self._scores += _np.array(scores) / traces.shape[1]", "        self._scores += _np.array(scores) / max(1, traces.shape[1] - 1)")
mut('c14-not-pooled', ['C14'], 'scared/distinguishers/template.py',
    "        self.pooled_covariance /= len(self.partitions)", "        self.pooled_covariance /= max(1, _np.count_nonzero(self._counters > 2))")
# ---- C16
mut('c16-cpa-check-after-first-accumulation', ['C16'], 'scared/distinguishers/cpa.py',
    "        if traces.shape[1] != self.ex.shape[0]:\n            raise DistinguisherError(f'traces have different size {traces.shape[1]} than already processed traces {self.ex.shape[0]}.')\n\n        _traces",
    "        _traces")
mut('c16-run-counts-before-update', ['C16'], 'scared/analysis/base.py',
    "        intermediate_values = self.compute_intermediate_values(traces_batch.metadatas)\n",
    "        n_batch = len(traces_batch)\n        self.processed_traces += n_batch\n        intermediate_values = self.compute_intermediate_values(traces_batch.metadatas)\n        self.processed_traces -= n_batch\n")
# ---- C20
mut('c20-index-from-processed-counter', ['C20'], 'scared/synchronization.py',
    "index=self.synchronized_counter - 1)", "index=self.processed_counter - 1 if self.processed_counter > 12 else self.synchronized_counter - 1)")
mut('c20-second-run-allowed-after-all-rejected', ['C20'], 'scared/synchronization.py',
    "        if self._err_counter is not None:\n            raise SynchronizerError",
    "        if self._err_counter is not None and self.synchronized_counter > 0:\n            raise SynchronizerError")
mut('c20-none-counts-as-synchronized', ['C20'], 'scared/synchronization.py',
    "                    if synchronized_data is not None:\n                        self.synchronized_counter += 1\n                    else:",
    "                    self.synchronized_counter += 1\n                    if synchronized_data is None:")
# ---- controls: behaviour preserving refactorings, every check must stay silent
mut('ctl-cpa-reorder-additions', [], 'scared/distinguishers/cpa.py',
    "        self.ey += _np.sum(_data, axis=0)\n        self.ey2 += _np.sum(_data ** 2, axis=0)\n        self.ex += _np.sum(_traces, axis=0)\n        self.ex2 += _np.sum(_traces ** 2, axis=0)\n        self.exy += _np.dot(_data.T, _traces)",
    "        self.exy += _np.dot(_data.T, _traces)\n        self.ex2 += _np.sum(_traces ** 2, axis=0)\n        self.ex += _np.sum(_traces, axis=0)\n        self.ey2 += _np.sum(_data ** 2, axis=0)\n        self.ey += _np.sum(_data, axis=0)",
    controls=['C01', 'C16', 'C02'])
mut('ctl-compute-every-batch-record-at-steps', [], 'scared/analysis/base.py',
    "        if self.convergence_step:\n            self._batches_processed.append(self.processed_traces)",
    "        if self.convergence_step:\n            self.compute()\n            self._batches_processed.append(self.processed_traces)",
    controls=['C08', 'C02'])
mut('ctl-ttest-stop-checked-after-read', [], 'scared/ttest.py',
    "                if self._stop_loop:\n                    return\n                samples = batch.samples[:]",
    "                samples = batch.samples[:]\n                if self._stop_loop:\n                    return",
    controls=['C09'])
# '>' instead of '>=' records fewer columns, but they are still prefix scores, strictly increasing and >= step apart,
# and the last column is still the final scores: the statement of C08 holds, so the check must stay silent.
mut('ctl-c08-gt-fewer-columns', [], 'scared/analysis/base.py',
    "            if self._batches_processed[-1] - self._batches_processed[0] >= self.convergence_step:",
    "            if self._batches_processed[-1] - self._batches_processed[0] > self.convergence_step:",
    controls=['C08'])
mut('ctl-container-slices-by-arange', [], 'scared/container.py',
    "            for start in range(len(ths) // batch_size)", "            for start in list(range(0, len(ths) // batch_size, 1))",
    controls=['C02', 'C08'])
# a *correct* polling variant of the join loop (timed joins, then a blocking join that re-raises): the thread simulation must model
# join(timeout) and stay silent.  (The first version of this control let a timed join re-raise the stored exception while the thread was
# still alive; C09 rightly reported it: after a failed run, the next run()'s first poll could come before the new thread had reset
# _exception and re-raised the OLD failure - 117 of 8000 scenarios.  The control now only looks at the exception once the thread is done.)
mut('ctl-ttest-polling-join-correct', [], 'scared/ttest.py',
    "            for accu in self.accumulators:\n                accu.join()\n                accu.compute()\n",
    "            pending = list(self.accumulators)\n            while pending:\n                for accu in list(pending):\n                    accu.join(timeout=0.02)\n"
    "                    if not accu.is_alive():\n                        accu.join()\n                        accu.compute()\n                        pending.remove(accu)\n",
    controls=['C09'])
# process() narrows nothing but hands update() a float64 copy of the batch: dtype at the update boundary differs, results do not
mut('ctl-process-widens-batch', [], 'scared/analysis/base.py',
    "            traces=traces_batch.samples\n",
    "            traces=traces_batch.samples.astype('float64')\n",
    controls=['C02', 'C08'])
for m in M:
    if m['id'] == 'c09-shared-slot':
        m['extra'] = ('scared/ttest.py', "logger = _logging.getLogger(__name__)\n", "logger = _logging.getLogger(__name__)\n_SHARED = {}\n")
    if m['id'] == 'ctl-ttest-polling-join-correct':
        m['extra'] = ('scared/ttest.py', "    def join(self):\n        \"\"\"Wait end of thread processing and check for exception. Reraise if any.\"\"\"\n        super().join()\n",
                      "    def join(self, timeout=None):\n        \"\"\"Wait end of thread processing and check for exception. Reraise if any.\"\"\"\n        super().join(timeout)\n        if self.is_alive():\n            return\n")
    if m['id'] == 'c16-cpa-check-after-first-accumulation':
        m['extra'] = ('scared/distinguishers/cpa.py', "        self.ey2 += _np.sum(_data ** 2, axis=0)\n",
                      "        self.ey2 += _np.sum(_data ** 2, axis=0)\n        if traces.shape[1] != self.ex.shape[0]:\n            raise DistinguisherError(f'traces have different size {traces.shape[1]} than already processed traces {self.ex.shape[0]}.')\n")


def sh(cmd, **kw):
    return subprocess.run(cmd, capture_output=True, text=True, **kw)


def scratch_tree(tag):
    d = os.path.join(SCRATCH, 'verif-mut-%s' % tag)
    sh(['git', '-C', '/repo', 'worktree', 'remove', '--force', d])
    shutil.rmtree(d, ignore_errors=True)
    r = sh(['git', '-C', '/repo', 'worktree', 'add', '--detach', d, 'HEAD'])
    if r.returncode:
        raise RuntimeError(r.stderr)
    return d


def drop_tree(d):
    from sim import env
    try:
        h = env.tree_hash(d)
        shutil.rmtree(os.path.join(V, '.cache', 'nb', h), ignore_errors=True)
    except Exception:
        pass
    sh(['git', '-C', '/repo', 'worktree', 'remove', '--force', d])
    shutil.rmtree(d, ignore_errors=True)
    sh(['git', '-C', '/repo', 'worktree', 'prune'])


def run_check(prop, tree, runs=None):
    e = dict(os.environ, VERIF_REPO=tree)
    cmd = [os.path.join(V, 'bin', 'check'), prop, '--tier', 'quick', '--no-evidence']
    if runs:
        cmd += ['--runs', str(runs)]
    r = sh(cmd, env=e, cwd=V)
    first = [l for l in r.stdout.splitlines() if l.startswith('violation:')]
    return r.returncode, (first[0][:230] if first else ''), r.stdout


def main():
    args = [a for a in sys.argv[1:] if not a.startswith('--')]
    if '--list' in sys.argv:
        for m in M:
            print(m['id'], m['props'] or ('control: ' + ','.join(m['controls'])))
        return 0
    todo = []
    if '--seeded' in sys.argv:
        for d in sorted(glob.glob(os.path.join(V, 'seeded', '*'))):
            meta = json.load(open(os.path.join(d, 'meta.json')))
            if args and meta['id'] not in args:
                continue
            todo.append({'id': meta['id'], 'props': meta.get('expected_checks') or [meta['property']], 'patch': os.path.join(d, 'patch.diff'), 'controls': []})
    else:
        todo = [m for m in M if not args or m['id'] in args]
    results = []
    okall = True
    for m in todo:
        t0 = time.time()
        tree = scratch_tree(m['id'])
        try:
            if 'patch' in m:
                r = sh(['git', '-C', tree, 'apply', m['patch']])
                if r.returncode:
                    print('FAIL %s: patch does not apply: %s' % (m['id'], r.stderr[:200]))
                    okall = False
                    continue
            else:
                reps = [(m['file'], m['old'], m['new'])] + ([m['extra']] if 'extra' in m else [])
                for path, old, new in reps:
                    p = os.path.join(tree, path)
                    s = open(p).read()
                    if s.count(old) != 1:
                        print('FAIL %s: pattern occurs %d times in %s' % (m['id'], s.count(old), path))
                        okall = False
                        break
                    open(p, 'w').write(s.replace(old, new))
                else:
                    pass
            sh([sys.executable, os.path.join(V, 'tools', 'setup.py')], env=dict(os.environ, VERIF_REPO=tree), cwd=V)
            for prop in m['props']:
                rc, first, out = run_check(prop, tree)
                good = rc == 1
                okall &= good
                results.append((m['id'], prop, 'detected' if good else 'MISSED(exit %d)' % rc, first))
                print('%s %-42s %s exit=%d %4.0fs %s' % ('ok  ' if good else 'MISS', m['id'], prop, rc, time.time() - t0, first))
                if rc == 2:
                    print(out[-800:])
            for prop in m['controls']:
                rc, first, out = run_check(prop, tree)
                good = rc == 0
                okall &= good
                results.append((m['id'], prop, 'silent' if good else 'FALSE-ALARM(exit %d)' % rc, first))
                print('%s %-42s %s control exit=%d %4.0fs %s' % ('ok  ' if good else 'ALARM', m['id'], prop, rc, time.time() - t0, first))
            sys.stdout.flush()
        finally:
            drop_tree(tree)
    json.dump(results, open(os.path.join(V, 'selftest', 'sensitivity_last.json' if '--seeded' not in sys.argv else 'sensitivity_seeded_last.json'), 'w'), indent=1)
    return 0 if okall else 1


if __name__ == '__main__':
    sys.exit(main())
