"""C16 runs on two engines: E1 histories with refused update() calls (3 of 4 runs) and E2 run-level
faults (storage / callback failures inside Analysis.run) (1 of 4 runs)."""
from . import accum, pipeline
from .. import rng

RULE = {'C16': accum.RULE['C16'] + ' | ' + pipeline.RULE['C16']}
SIM_TIME_UNIT = {'C16': 'simulated CPU seconds (E1) + storage fetch events (E2)'}
ASSUMPTIONS = {'C16': accum.ASSUMPTIONS['C16'] + pipeline.ASSUMPTIONS['C16']}


def _eng(scn):
    return pipeline if scn['engine'] == 'pipeline' else accum


def generate(prop, seed, tier):
    if rng.stream(seed, 'engine').random() < 0.25:
        return pipeline.generate(prop, seed, tier)
    return accum.generate(prop, seed, tier)


def execute(scn):
    return _eng(scn).execute(scn)


def precondition(scn):
    return _eng(scn).precondition(scn)


def candidates(scn):
    return _eng(scn).candidates(scn)


def summary(scn):
    s = _eng(scn).summary(scn)
    s['engine'] = scn['engine']
    return s
