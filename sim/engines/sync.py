"""E4 - Synchronizer simulation (C20).

Real scared.Synchronizer, real ETSWriter/h5py writing a real file in a per-run scratch directory
on tmpfs (removed after the run); fake input storage; the user function is the fault site
(accept / raise ResynchroError / raise another Exception / return None per trace).
Reference model: [(f(t), meta(t)) for t in input if accepted(t)].
"""
import copy
import os
import pathlib
import shutil
import tempfile
import warnings

import numpy as np

from .. import env, rng
from ..storage import Storage, make_ths

RULE = {'C20': 'seeded input sets (1..150 traces, a few 300-700; several metadata kinds; user function written in seven ways; check() before / after run(); returned dtype and value range) x fault sequence over the traces from {accept, ResynchroError, '
               'other Exception, None} in shapes {random density, all accept, all reject, first/last rejected, runs of >= 8/16/32/64/256 consecutive failures, alternate} '
               'x returned length (=, <, > input length) x output as str/Path x a second run(); non-trivial = at least one rejection and one acceptance, or all rejected; '
               'distinct = distinct (n, fault pattern, returned length, metadata kinds)'}
SIM_TIME_UNIT = {'C20': 'traces offered to the user function'}
ASSUMPTIONS = {'C20': ['disk faults are not injected (the property says nothing about them); the output is a real ETS file on tmpfs',
                       'returned data has a uniform length within a run (ETS output is rectangular)',
                       'when nothing is accepted run() may fail to return a set; only the counters are judged then']}

SCRATCH_ROOT = '/dev/shm' if os.path.isdir('/dev/shm') else tempfile.gettempdir()


def _w(r, items):
    tot = sum(w for _, w in items)
    x = r.random() * tot
    for v, w in items:
        x -= w
        if x < 0:
            return v
    return items[-1][0]


def generate(prop, seed, tier):
    r = rng.stream(seed, 'workload')
    fr = rng.stream(seed, 'faults')
    thorough = tier == 'thorough'
    n = _w(r, [(r.randint(1, 6), 2), (r.randint(7, 40), 5), (r.randint(41, 70), 2 if thorough else 0.3), (r.randint(100, 150), 1 if thorough else 0.15)])
    bn = rng.stream(seed, 'bign')
    if bn.random() < 0.02:
        n = bn.randint(300, 700)          # failure runs of several hundred traces (the warning threshold doubles: 8, 16, ... 256, 512)
    m = r.randint(2, 8)
    shape = fr.choice(['random', 'random', 'all_accept', 'all_reject', 'first_rej', 'last_rej', 'long_run', 'long_run', 'alternate'])
    rej = 'rnetvk'       # ResynchroError, None, ZeroDivisionError, TypeError, ValueError, a custom Exception subclass
    if shape == 'random':
        dens = fr.random()
        pat = [fr.choice(rej) if fr.random() < dens else 'a' for _ in range(n)]
    elif shape == 'all_accept':
        pat = ['a'] * n
    elif shape == 'all_reject':
        pat = [fr.choice(rej) for _ in range(n)]
    elif shape == 'first_rej':
        pat = [fr.choice(rej)] + ['a'] * (n - 1)
    elif shape == 'last_rej':
        pat = ['a'] * (n - 1) + [fr.choice(rej)]
    elif shape == 'long_run':
        pat = ['a'] * n
        s0 = fr.randint(0, max(0, n - 1))
        L = fr.choice([8, 9, 16, 17, 24, 33] + ([64, 65, 130] if n >= 70 else []) + ([256, 257, 300, 520] * 3 if n >= 300 else []))
        for i in range(s0, min(n, s0 + L)):
            pat[i] = fr.choice(rej)
    else:
        pat = [('a' if i % 2 == 0 else fr.choice(rej)) for i in range(n)]
    return {'prop': 'C20', 'engine': 'sync', 'seed': seed, 'n': n, 'm': m, 'tdtype': r.choice(['uint8', 'int16', 'float32']),
            'ptw': r.randint(1, 16), 'label': r.random() < 0.5, 'gain': r.random() < 0.7, 'pattern': ''.join(pat), 'shape': shape,
            'outlen': r.choice([m, m, max(1, m - 1), m + 3, 1]), 'out_kind': r.choice(['str', 'path']), 'scale': r.choice([1, 1, 2]),
            'table_seed': rng.H(seed, 'table'),
            # history before run(): the documented workflow tries the function with check() first (random picks -> numpy global RNG is seeded)
            'check_first': rng.stream(seed, 'history').choice([0, 0, 0, 1, 3, 5]),
            # dtype of the data the user function returns (may differ from the input trace dtype)
            'ret_dtype': rng.stream(seed, 'retdtype').choice([None, None, 'float32', 'float64', 'int32', 'int64', 'uint16']),
            # returned values outside the range / resolution of the INPUT dtype (only with a wider returned dtype): the output must hold them exactly
            'ret_bias': rng.stream(seed, 'retbias').choice([0, 0, 300, -7, 70000, 0.25, 0.1]),      # 0.1: not representable in a narrower float
            # the user function may hand back the same buffer object on every call (overwritten in place)
            'reuse_buffer': rng.stream(seed, 'reuse').random() < 0.2,
            # how the user function is written: the Synchronizer documents that it passes `trace_object` and its own keyword arguments by name,
            # so any callable accepting those names is a legal function (parameter order, keyword-only, **kwargs, partial, bound method, object)
            'fstyle': rng.stream(seed, 'fstyle').choice(['plain', 'plain', 'plain', 'second', 'kwonly', 'varkw', 'partial', 'method', 'object']),
            # history: check() once more after run() - the second run() must still be refused
            'check_after': rng.stream(seed, 'history2').choice([0, 0, 0, 2])}


def make_input(scn):
    g = rng.np_stream(scn['table_seed'], 'sync')
    n, m = scn['n'], scn['m']
    R = max(160, n)
    samples = (g.integers(0, 100, (R, 8))[:n, :m]).astype(scn['tdtype'])
    meta = {'plaintext': g.integers(0, 256, (R, 16))[:n, :scn['ptw']].astype('uint8'), 'idx': np.arange(n).astype('uint32')}
    gain = g.random(R)[:n].astype('float64')
    if scn['gain']:
        meta['gain'] = gain
    if scn['label']:
        meta['label'] = np.array(['t%03d' % (7 * i % 1000) for i in range(n)])
    return samples, meta


def viol(oracle, sig, detail):
    return {'oracle': oracle, 'sig': [str(s) for s in sig], 'detail': detail}


_EXC = []


def exception_classes(scared, user_bug):
    """Every builtin Exception subclass that can be built without arguments (MemoryError, RecursionError, OSError subclasses, Warning
    subclasses ... - not KeyboardInterrupt / SystemExit / GeneratorExit, which are not Exceptions), numpy's LinAlgError, and user-defined
    subclasses incl. one of ResynchroError; in a fixed (name) order."""
    if not _EXC:
        import builtins
        out = []
        for name in sorted(vars(builtins)):
            c = getattr(builtins, name)
            if isinstance(c, type) and issubclass(c, Exception):
                try:
                    c()
                except Exception:
                    continue
                out.append(c)
        out.append(np.linalg.LinAlgError)

        class NoSyncHere(scared.ResynchroError):
            pass

        class BadValue(ValueError):
            pass
        out += [NoSyncHere, BadValue]
        _EXC.extend(out)
    return _EXC + [user_bug]


def ret_bias(scn):
    """Offset added to the returned data; only values the returned dtype can hold."""
    b = scn.get('ret_bias') or 0
    dt = np.dtype(scn.get('ret_dtype') or scn['tdtype'])
    if not scn.get('ret_dtype'):
        return 0
    if dt.kind in 'iu':
        if b != int(b) or (dt.kind == 'u' and b < 0):
            return 0
        hi = np.iinfo(dt).max
        return int(b) if 0 <= 200 + b <= hi else 0
    return b


def execute(scn):
    scared = env.boot()
    samples, meta = make_input(scn)
    n = scn['n']
    pat = scn['pattern']
    outlen = scn['outlen']
    dt = scn.get('ret_dtype') or scn['tdtype']
    storage = Storage()
    ths = make_ths(storage, samples, meta, 'in')
    calls = []

    bias = ret_bias(scn)
    buf = np.zeros(outlen, dtype=dt)

    class UserBug(Exception):
        pass

    def f(trace_object, scale=1):
        i = int(np.asarray(trace_object.idx).ravel()[0])
        calls.append(i)
        p = pat[i]
        if p == 'a':
            x = trace_object.samples[:]
            y = (np.resize(x, outlen).astype(dt) * scale + bias).astype(dt)
            if scn.get('reuse_buffer'):
                buf[:] = y
                return buf
            return y
        if p == 'n':
            return None
        if p == 'r':
            raise scared.ResynchroError(*[('no sync',), (), ('a', 'b')][(i + scn['seed']) % 3])
        # any Exception subclass, with any payload (no argument, one string, several, a non-string): code in the rejection path that looks at
        # the exception object must cope with all of them
        classes = exception_classes(scared, UserBug)
        K = classes[(i * 7 + scn['seed'] + 'etvk'.index(p)) % len(classes)]
        args = [(), ('user bug',), ('a', 2), (3,), (None,)][(i + scn['seed']) % 5]
        try:
            exc = K(*args)
        except Exception:
            exc = K()
        raise exc

    core = f
    style = scn.get('fstyle', 'plain')
    if style == 'second':
        def f(scale, trace_object):                     # noqa: F811
            return core(trace_object, scale)
    elif style == 'kwonly':
        def f(*, trace_object, scale=1):                # noqa: F811
            return core(trace_object, scale)
    elif style == 'varkw':
        def f(**kw):                                    # noqa: F811
            return core(kw['trace_object'], kw.get('scale', 1))
    elif style == 'partial':
        import functools

        def g(tag, trace_object, scale=1):
            return core(trace_object, scale)
        f = functools.partial(g, 'bound')
    elif style == 'method':
        class Tool:
            def sync(self, trace_object, scale=1):
                return core(trace_object, scale)
        f = Tool().sync
    elif style == 'object':
        class Callable:
            def __call__(self, trace_object, scale=1):
                return core(trace_object, scale)
        f = Callable()

    scratch = tempfile.mkdtemp(prefix='verif_sync_', dir=SCRATCH_ROOT)
    fn = os.path.join(scratch, 'out.ets')
    out = fn if scn['out_kind'] == 'str' else pathlib.Path(fn)
    exp = [i for i in range(n) if pat[i] == 'a']
    violation = None
    faults = {'user_raise': [sum(1 for c in pat if c in 'retvk'), 0], 'user_none': [sum(1 for c in pat if c == 'n'), 0]}
    probes = {}
    res = None
    try:
        sy = scared.Synchronizer(ths, out, f, scale=scn['scale'])
        run_exc = None
        if scn.get('check_first'):
            import contextlib
            import io
            np.random.seed(scn['seed'] % (2 ** 32))
            try:
                with contextlib.redirect_stdout(io.StringIO()):
                    sy.check(nb_traces=scn['check_first'])
                probes['check_before_run'] = 1
            except Exception:
                probes['check_raised'] = 1
            del calls[:]
        try:
            with warnings.catch_warnings():
                warnings.simplefilter('ignore')
                res = sy.run()
        except Exception as e:
            run_exc = e
        faults['user_raise'][1] = sum(1 for i in calls if pat[i] in 'retvk')
        faults['user_none'][1] = sum(1 for i in calls if pat[i] == 'n')
        if run_exc is not None and exp:
            violation = viol('run_raised', ['C20', 'run_raised', type(run_exc).__name__], 'run() raised %r although %d traces were accepted' % (run_exc, len(exp)))
        if violation is None and sy.processed_counter != n:
            violation = viol('processed_counter', ['C20', 'processed_counter'], 'processed_counter=%s for %d inputs (pattern %s)' % (sy.processed_counter, n, pat))
        if violation is None and sy.synchronized_counter != len(exp):
            violation = viol('synchronized_counter', ['C20', 'synchronized_counter'], 'synchronized_counter=%s, accepted %d (pattern %s)' % (sy.synchronized_counter, len(exp), pat))
        if violation is None and exp:
            if res is None or len(res) != len(exp):
                violation = viol('output_length', ['C20', 'output_length'], 'output has %s traces, accepted %d (pattern %s)' % (None if res is None else len(res), len(exp), pat))
            else:
                S = res.samples[:]
                want = np.array([(np.resize(samples[i], outlen).astype(dt) * scn['scale'] + bias).astype(dt) for i in exp]).reshape(len(exp), outlen)
                if not (S.shape == want.shape and np.array_equal(S, want)):
                    rows = [j for j in range(min(len(S), len(want))) if S.shape[1:] != want.shape[1:] or not np.array_equal(S[j], want[j])]
                    violation = viol('output_samples', ['C20', 'output_samples'], 'rows %s of the output are not the returned data of accepted traces %s (pattern %s)' % (rows[:5], exp[:8], pat))
                else:
                    for k, v in meta.items():
                        got = np.asarray(res.metadatas[k])
                        w = v[exp]
                        if got.shape != w.shape and got.size == w.size:
                            got = got.reshape(w.shape)
                        if not (got.shape == w.shape and np.array_equal(got, w)):
                            violation = viol('output_metadata', ['C20', 'output_metadata', k], 'metadata %r of the output rows are not those of the originating traces (pattern %s)' % (k, pat))
                            break
        if violation is None and scn.get('check_after'):
            import contextlib
            import io
            ncalls = len(calls)
            np.random.seed((scn['seed'] + 1) % (2 ** 32))         # check() draws its traces from numpy's global generator
            try:
                with contextlib.redirect_stdout(io.StringIO()):
                    sy.check(nb_traces=scn['check_after'])
                probes['check_after_run'] = 1
            except Exception:
                probes['check_after_run_raised'] = 1
            del calls[ncalls:]
        if violation is None:
            try:
                sy.run()
                violation = viol('second_run_allowed', ['C20', 'second_run_allowed'], 'a second run() was not refused')
            except scared.SynchronizerError:
                probes['second_run_refused'] = 1
            except Exception as e:
                violation = viol('second_run_wrong_error', ['C20', 'second_run_wrong_error', type(e).__name__], 'second run() raised %r' % (e,))
        if violation is None and calls != list(range(n)):
            # not a property clause by itself, but the model assumes one call per input in order
            probes['calls_not_in_order'] = 1
    finally:
        try:
            if res is not None and getattr(res, '_reader', None) is not None and getattr(res._reader, '_file', None) is not None:
                res._reader._file.close()
        except Exception:
            pass
        try:
            sy.output.close()
        except Exception:
            pass
        shutil.rmtree(scratch, ignore_errors=True)
        env.reset_globals()
    runs = max((len(s) for s in ''.join('x' if c != 'a' else ' ' for c in pat).split()), default=0)
    if runs >= 8:
        probes['failure_run_ge_8'] = 1
    if runs >= 16:
        probes['failure_run_ge_16'] = 1
    if runs >= 32:
        probes['failure_run_ge_32'] = 1
    if runs >= 64:
        probes['failure_run_ge_64'] = 1
    if not exp:
        probes['all_rejected'] = 1
    case = rng.digest([n, pat, outlen, scn['ptw'], scn['label'], scn['gain'], scn['out_kind']])
    return {'violation': violation, 'inconclusive': False, 'digest': rng.digest([storage.events, calls, sy.processed_counter, sy.synchronized_counter]),
            'case': case, 'nontrivial': (0 < len(exp) < n) or not exp, 'faults': faults, 'probes': probes, 'sim_time': n}


def precondition(scn):
    return scn['n'] >= 1 and len(scn['pattern']) == scn['n'] and scn['m'] >= 2 and scn['outlen'] >= 1


def candidates(scn):
    n = scn['n']
    # drop traces (and their pattern entries): halves, then singles
    size = n // 2
    while size >= 1:
        for i in range(0, n, size):
            c = copy.deepcopy(scn)
            p = scn['pattern']
            c['pattern'] = p[:i] + p[i + size:]
            c['n'] = len(c['pattern'])
            if c['n'] >= 1:
                yield c
        size //= 2
    for i, ch in enumerate(scn['pattern']):
        if ch in 'netvk':
            c = copy.deepcopy(scn)
            c['pattern'] = scn['pattern'][:i] + 'r' + scn['pattern'][i + 1:]
            yield c
    for key, val in (('label', False), ('gain', False), ('ptw', 1), ('tdtype', 'uint8'), ('out_kind', 'str'), ('scale', 1), ('outlen', scn['m']), ('m', 2), ('check_first', 0), ('check_after', 0), ('fstyle', 'plain'), ('ret_dtype', None), ('ret_bias', 0), ('reuse_buffer', False)):
        if scn.get(key) != val:
            c = copy.deepcopy(scn)
            c[key] = val
            if key == 'm':
                c['outlen'] = min(c['outlen'], 2) if scn['outlen'] == scn['m'] else c['outlen']
            yield c


def summary(scn):
    return {k: scn.get(k) for k in ('n', 'm', 'tdtype', 'pattern', 'shape', 'outlen', 'out_kind', 'ptw', 'label', 'gain', 'check_first')}
