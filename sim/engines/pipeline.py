"""E2 - pipeline simulation (single threaded): C02, C08, C14, run-level C16.

System under test: a whole analysis - Container(SimReader-backed trace set, frame, preprocesses)
-> Analysis.run -> distinguisher -> discriminant; template build()/run() lifecycle.
The simulator owns storage, the process-global batch rule, the user callbacks, the clock,
the memory gate and the worker count, and records the history at the public update boundary.
"""
import copy
import functools
import os

import numpy as np

from .. import compare, env, kinds, rng
from ..storage import Storage, make_ths

RULE = {
    'C02': 'seeded (class x direction, N per container, batch rule int/MB/table, frame kind incl. unsorted / negative index lists, preprocess chain (list or single callable), word selection incl. permutations and repeats, '
           'precision, convergence step for 30 % of the attacks, constant metadata byte, wide class values with the Value model, MIA with wide fractional samples and integer counter precision, repeated / same-named preprocesses, 32/64-bit integer samples above 2^24, a Container run twice or shared with another analysis, 1-3 run() calls each with its own storage dtype); '
           'non-trivial when more than one batch reached update(); distinct = distinct (class, direction, batch-length sequence, frame kind, chain, rule kind)',
    'C08': 'seeded C02 scenarios for attacks with convergence_step in {1, <b, =b, >b, not dividing N, >N}; non-trivial when >= 2 convergence columns; '
           'distinct = distinct (class, step, batch-length sequence, columns per run)',
    'C14': 'seeded template lifecycles: (attack kind, class list incl. shifted/permuted/gapped/automatic, trace length 1..6, precision, building/matching sizes, '
           'batch rules for both phases, 1-3 matching runs, run-before-build probe, empty / single-trace classes, 9-256 classes, an identically zero sample, common-mode noise with cond up to 1e9, guesses != classes, hypothesis dtype of its own, build fault + sibling object, second build()); distinct = distinct (kind, class list, L, precision, build batches, match batches)',
    'C16': 'run-level: a run() over fake storage with one injected fault (storage error on metadata/samples of batch k, preprocess or selection function raising on batch k, preprocess returning a shorter trace / '
           'selection function returning an extra word on batch k >= 1 so that update() itself refuses); afterwards compute_results() and a run over the remaining rows are compared with one-shot twins, and with a '
           'convergence step the convergence trace with a calibrated accepted-only twin',
}
SIM_TIME_UNIT = {'C02': 'storage fetch events', 'C08': 'storage fetch events', 'C14': 'storage fetch events', 'C16': 'storage fetch events'}
ASSUMPTIONS = {
    'C02': ['history is judged at the public update() boundary (recording subclass of the analysis class): values and shapes, not storage dtypes; extra storage probes are legal',
            'expected rows and intermediate values are computed by the harness without scared\'s Container / SelectionFunction wrapper; the one-shot twin is the standalone distinguisher, not the analysis class',
            'exact regime: integer-valued traces through integer-preserving row-wise preprocesses, accumulators below 2^24/2^53 => bitwise',
            'automatic class sets only with the maximum already in the first batch; MIA with explicit bin edges',
            'storage is an in-process fake behind estraces.AbstractReader; real file readers are not exercised'],
    'C08': ['a column may match any observed batch boundary (full assignment search), so equal scores on different prefixes never alarm',
            'which columns close a run() is observed from outside as the column count after each run()'],
    'C14': ['reference model: class means, mean over declared classes of unbiased within-class covariance, pinv, score = 10 - sum d^T S^+ d / (n L); numpy float64',
            'a declared class with fewer than 2 building traces contributes a zero matrix and still counts in the divisor ("average over declared classes"); its template is compared only if it has one trace; scores of candidates without building traces are not compared',
            'a second build() may accumulate or start afresh (both accepted); a failed build is not a build (matching stays refused); noise keeps the pooled covariance well conditioned (cond <= 1e3, else inconclusive)',
            'tolerance 1e-8 (float64) / 1e-3 (float32) against the model; templates/covariance bitwise across batch rules in the exact regime'],
    'C16': ['faults are injected before update() is reached (storage, preprocess, selection function), as real storage/callback failures are'],
}


class InjectedIOError(OSError):
    pass


class InjectedFault(Exception):
    pass


class Hook:
    """State shared with the harness-defined callbacks of the current run."""
    pp_calls = 0
    sf_calls = 0
    pp_armed = False
    pp_short_armed = False
    sf_raise_at = None
    sf_extra_at = None
    fired = None

    @classmethod
    def reset(cls):
        cls.pp_calls = 0
        cls.sf_calls = 0
        cls.pp_armed = False
        cls.pp_short_armed = False
        cls.sf_raise_at = None
        cls.sf_extra_at = None
        cls.fired = None


_CB = {}


def callbacks():
    """Harness-defined row-wise preprocesses (all integer preserving, float32 out)."""
    if _CB:
        return _CB
    scared = env.boot()

    def guard():
        Hook.pp_calls += 1
        if Hook.pp_armed:
            Hook.pp_armed = False
            Hook.fired = 'callback_error:preprocess'
            raise InjectedFault('injected preprocess failure')

    @scared.preprocess
    def pp_rev_affine(traces):
        guard()
        return traces[:, ::-1].astype('float32') * 2 + 1

    @scared.preprocess
    def pp_append_prod(traces):
        guard()
        t = traces.astype('float32')
        return np.concatenate([t, t[:, :1] * t[:, -1:]], axis=1)

    @scared.preprocess
    def pp_cast(traces):
        guard()
        if Hook.pp_short_armed:
            Hook.pp_short_armed = False
            Hook.fired = 'refused_in_update:trace_length'
            return traces.astype('float32')[:, :-1]
        return traces.astype('float32')

    @scared.preprocess
    def pp_square(traces):
        guard()
        return scared.preprocesses.square(traces)

    def linear(mul, add):
        # two closures of one factory: distinct callables with the same __name__ / __qualname__
        @scared.preprocess
        def pp_linear(traces):
            guard()
            return traces.astype('float32') * mul + add
        return pp_linear

    class Offset(scared.Preprocess):
        # two instances of one Preprocess subclass: distinct callables of the same class
        def __init__(self, k):
            self.k = k

        def __call__(self, traces):
            guard()
            return traces.astype('float32') + self.k

    _CB.update({'rev_affine': pp_rev_affine, 'append_prod': pp_append_prod, 'cast': pp_cast, 'square': pp_square,
                'lin_a': linear(2, 0), 'lin_b': linear(1, 3), 'off_a': Offset(1), 'off_b': Offset(4)})
    return _CB


WIDE_POOL = np.array([3, 100, 260, 300, 455, 511], dtype='uint16')     # intermediate values wider than a byte (Value model)


def make_sf(mode, words, nguess, wide=False):
    scared = env.boot()
    w = words
    if isinstance(w, list) and w and w[0] == 'slice':
        w = slice(*w[1:])
    elif isinstance(w, list) and w and w[0] == 'ndarray':
        w = np.array(w[1], dtype='int64')
    if mode == 'attack':
        def sf(plaintext, guesses):
            Hook.sf_calls += 1
            if Hook.sf_raise_at is not None and Hook.sf_calls == Hook.sf_raise_at:
                Hook.fired = 'callback_error:selection_function'
                raise InjectedFault('injected selection function failure')
            out = np.empty((plaintext.shape[0], len(guesses), plaintext.shape[1]), dtype='uint8')
            for i, g in enumerate(guesses):
                out[:, i, :] = plaintext ^ np.uint8(g)
            if wide:
                out = WIDE_POOL[out % len(WIDE_POOL)]
            if Hook.sf_extra_at is not None and Hook.sf_calls == Hook.sf_extra_at:
                Hook.fired = 'refused_in_update:word_count'
                out = np.concatenate([out, out[:, :, :1]], axis=2)
            return out
        return scared.attack_selection_function(sf, guesses=range(nguess), words=w)

    def sf(plaintext):
        Hook.sf_calls += 1
        if Hook.sf_raise_at is not None and Hook.sf_calls == Hook.sf_raise_at:
            Hook.fired = 'callback_error:selection_function'
            raise InjectedFault('injected selection function failure')
        if wide:
            plaintext = WIDE_POOL[plaintext % len(WIDE_POOL)]
        if Hook.sf_extra_at is not None and Hook.sf_calls == Hook.sf_extra_at:
            Hook.fired = 'refused_in_update:word_count'
            return np.concatenate([plaintext, plaintext[:, :1]], axis=1)
        return plaintext
    return scared.reverse_selection_function(sf, words=w)


def expected_data(scn, model, pt):
    """model(selection function output) for these metadata rows, computed WITHOUT scared's SelectionFunction wrapper: the raw harness function
    and a plain numpy selection of the requested words on the last axis (so a wrong words selection in the wrapper cannot hide on both sides)."""
    if scn['mode'] == 'attack':
        raw = np.empty((pt.shape[0], scn['nguess'], pt.shape[1]), dtype='uint8')
        for g in range(scn['nguess']):
            raw[:, g, :] = pt ^ np.uint8(g)
    else:
        raw = pt
    if scn.get('wide'):
        raw = WIDE_POOL[raw % len(WIDE_POOL)]
    w = scn['words']
    if w is None:
        sel = raw
    elif isinstance(w, int):
        sel = raw[..., w]
    elif isinstance(w, list) and w and w[0] == 'slice':
        sel = raw[..., slice(*w[1:])]
    elif isinstance(w, list) and w and w[0] == 'ndarray':
        sel = raw[..., np.array(w[1], dtype='int64')]
    else:
        sel = raw[..., list(w)]
    return model(np.ascontiguousarray(sel))


def classes_of(scared):
    return {
        'cpa': (scared.CPAAttack, scared.CPAReverse), 'dpa': (scared.DPAAttack, scared.DPAReverse),
        'anova': (scared.ANOVAAttack, scared.ANOVAReverse), 'nicv': (scared.NICVAttack, scared.NICVReverse),
        'snr': (scared.SNRAttack, scared.SNRReverse), 'mia': (scared.MIAAttack, scared.MIAReverse),
    }


def np_frame(fr):
    if fr is None:
        return None
    k = fr[0]
    if k == 'slice':
        return slice(fr[1], fr[2], fr[3])
    if k == 'list':
        return list(fr[1])
    if k == 'range':
        return range(fr[1], fr[2], fr[3])
    if k == 'ndarray':
        return np.array(fr[1])
    if k == 'ellipsis':
        return Ellipsis
    raise KeyError(k)


def set_rule(scared, rule):
    if isinstance(rule, list):
        scared.set_batch_size([tuple(x) for x in rule])
    else:
        scared.set_batch_size(rule)


# ----------------------------------------------------------------------------- data

def make_sets(scn):
    g = rng.np_stream(scn['table_seed'], 'pipe')
    out = []
    for j, n in enumerate(scn['sets']):
        rows = max(160, n)
        raw = g.integers(0, 1 << 16, (rows, 16))
        pt = g.integers(0, 256, (rows, 4)).astype('uint8')
        s = raw[:n, :scn['m']] % (scn['amp'] + 1)
        td = np.dtype((scn.get('tdtypes') or [scn['tdtype']] * len(scn['sets']))[j])
        if td.kind != 'u':
            s = s - scn['amp'] // 2
        s = (s + scn.get('offset', 0)).astype(td)
        if scn.get('half'):
            s = s + 0.5
        p = pt[:n].copy()
        if scn.get('const_word') is not None:
            p[:, 3] = scn['const_word']      # a constant metadata byte (padding): undefined statistics (NaN) for that word in CPA/DPA
        if j == 0 and not (scn.get('const_word') is not None and scn.get('classes') is not None):
            p[0, :] = 255        # first batch decisive for automatic class sets (HW max) - DESIGN 4.3
        if j >= 1 and scn.get('reuse') == 'same_container':
            s, p = out[0][0].copy(), out[0][1].copy()      # the same Container object is run again: the same traces once more
        out.append((s, p))
    return out


def expected_matrix(scn, samples):
    cb = callbacks()
    fr = np_frame(scn['frame'])
    E = samples if fr is None or fr is Ellipsis else samples[:, list(fr) if isinstance(fr, range) else fr]
    E = np.ascontiguousarray(E)
    for name in scn['chain']:
        E = cb[name](E)
    return E


def make_model(scn):
    scared = env.boot()
    mo = scn['model']
    if mo == 'hw':
        return scared.HammingWeight()
    if mo == 'value':
        return scared.Value()
    return scared.Monobit(mo[1])


def analysis_kwargs(scn, sf, step=None):
    scared = env.boot()
    kw = dict(selection_function=sf, model=make_model(scn), precision=scn['precision'])
    if scn['kind'] in ('anova', 'nicv', 'snr', 'mia'):
        kw['partitions'] = scn['classes']
    if scn['kind'] == 'mia':
        kw['bin_edges'] = np.linspace(scn['mia']['lo'], scn['mia']['hi'], scn['mia']['bins'] + 1)
    if scn['mode'] == 'attack':
        kw['discriminant'] = getattr(scared, scn['discriminant'])
        kw['convergence_step'] = step
    return kw


def exact_ok(scn, EE, DD):
    prec = np.dtype(scn['precision'])
    lim = (1 << 24) if prec.itemsize == 4 else (1 << 53)
    x = float(np.abs(EE.astype('float64')).max()) if EE.size else 0
    y = float(np.abs(DD.astype('float64')).max()) if DD.size else 0
    n = EE.shape[0]
    return n * max(x * x, x * y, y * y, 1) < lim


# ----------------------------------------------------------------------------- generation

def _w(r, items):
    tot = sum(w for _, w in items)
    x = r.random() * tot
    for v, w in items:
        x -= w
        if x < 0:
            return v
    return items[-1][0]


def gen_base(prop, seed, tier):
    r = rng.stream(seed, 'workload')
    thorough = tier == 'thorough'
    kind = _w(r, [('cpa', 3), ('dpa', 2), ('anova', 1.5), ('nicv', 1.2), ('snr', 1.2), ('mia', 1.5)])
    mode = 'attack' if prop == 'C08' else r.choice(['attack', 'reverse'])
    m = r.randint(2, 6)
    big = rng.stream(seed, 'bigpipe')
    isbig = big.random() < 0.04
    if isbig:
        m = big.randint(8, 16)          # longer traces
    nruns = r.choice([1, 1, 2, 3])
    sets = [_w(r, [(r.randint(1, 12), 2), (r.randint(13, 60), 4), (r.randint(61, 120), 1)]) for _ in range(nruns)]
    if isbig:
        sets = [big.randint(150, 600) for _ in range(nruns)]      # containers of several hundred traces, batches of a hundred and more
    frame = r.choice([None, None, ['ellipsis'], ['slice', 1, None, None], ['slice', 0, m - 1, None], ['list', [0, m - 1]],
                      ['list', [m - 1, 0]], ['range', 0, m, 2], ['ndarray', [1, 0]], ['slice', 0, None, 2]])
    fr2 = rng.stream(seed, 'frame2')
    u = fr2.random()
    if u > 0.92:
        frame = fr2.choice([['list', [-1, 0]], ['slice', -2, None, None], ['list', [0, -1, 1]], ['slice', None, None, -1]])
    if m >= 3 and u < 0.2:
        # unsorted index frames of >= 3 columns (3-cycles, repeats): code that sorts the indices for reading and restores the order afterwards
        # gets 2-element and monotone frames right whatever it does
        perm = list(range(m))
        while perm == sorted(perm) or perm == sorted(perm, reverse=True):
            fr2.shuffle(perm)
        opts = [perm, perm[:3] if perm[:3] != sorted(perm[:3]) and perm[:3] != sorted(perm[:3], reverse=True) else [2, 0, 1], [2, 0, 1], [1, 2, 0],
                [m - 1, 0, 1, 0], [0, 2, 2, 1]]
        frame = [fr2.choice(['list', 'ndarray']), fr2.choice(opts)]
    chain = r.choice([[], [], ['rev_affine'], ['rev_affine', 'append_prod'], ['append_prod', 'rev_affine'], ['cast'], ['square'],
                      ['cast', 'append_prod', 'rev_affine'], ['rev_affine', 'square']])
    words = r.choice([None, None, [0, 2], 1, ['slice', 1, 3], [3, 0], [3, 2, 1, 0], [1, 0, 3, 2], [0, 0, 2, 3], [2], ['ndarray', [2, 0, 3, 1]],
                      ['ndarray', [1, 1]], ['slice', None, None, 2]])
    nmax = max(sets)
    rule = _w(r, [(r.randint(1, 6), 3), (r.randint(7, 30), 3), (r.choice([nmax, nmax + 5, max(1, nmax - 1), max(1, nmax // 2)]), 2),
                  (r.choice([1e-5, 5e-5, 1e-4, 3e-4]), 1.5),
                  (r.choice([[[0, 4], [3, 6], [10, 9]], [[0, 3], [2, 7]], [[0, 50], [4, 5], [6, 2]], [[0, 1], [100, 3]]]), 1.5)])
    if isbig:
        rule = big.choice([100, 128, 250, 256, 512, 1000, 3e-3, [[0, 64], [300, 200]]])
    c2 = rng.stream(seed, 'chain2')
    if c2.random() < 0.15:
        # the same callable twice, callables sharing a name (closures of one factory, instances of one Preprocess class), chains of four
        chain = c2.choice([['rev_affine', 'rev_affine'], ['append_prod', 'append_prod'], ['lin_a', 'lin_b'], ['lin_b', 'lin_a'], ['off_a', 'off_b'],
                           ['lin_a', 'rev_affine', 'lin_b'], ['off_a', 'square', 'off_b'], ['cast', 'lin_b', 'append_prod', 'lin_a']])
    scn = {'prop': prop, 'engine': 'pipeline', 'seed': seed, 'kind': kind, 'mode': mode, 'm': m, 'sets': sets, 'frame': frame, 'chain': chain,
           'words': words, 'rule': rule, 'precision': r.choice(['float32', 'float64']),
           'tdtype': r.choice(['uint8', 'uint8', 'int16', 'float32', 'float64'] if thorough else ['uint8']),
           'amp': r.choice([3, 7, 15, 255]), 'table_seed': rng.H(seed, 'table'), 'nguess': r.choice([2, 3, 4]),
           'model': ['monobit', r.randint(0, 7)] if kind == 'dpa' else 'hw',
           'discriminant': r.choice(['maxabs', 'nanmax', 'abssum', 'nansum', 'opposite_min']),
           'classes': None, 'step': None}
    if kind in ('anova', 'nicv', 'snr', 'mia'):
        scn['classes'] = r.choice([None, list(range(9)), list(range(9)), [8, 7, 6, 5, 4, 3, 2, 1, 0], [0, 2, 4, 6, 8, 1], list(range(12)),
                                   [0, 2, 1, 3, 4, 6, 5, 7, 8], [0, 4, 8], [0, 3, 8], [0, 5, 1, 8]])     # lists sharing length and end points
    wr = rng.stream(seed, 'wide')
    if kind in ('anova', 'nicv', 'snr', 'mia') and wr.random() < 0.12:
        # class values wider than a byte with the Value model (explicit classes: permuted, with an extra unused value, or leaving one undeclared)
        scn['wide'] = True
        scn['model'] = 'value'
        pool = [int(x) for x in WIDE_POOL]
        scn['classes'] = wr.choice([pool, pool[::-1], pool + [1000], [455, 3, 511, 100, 300, 260], pool[:-1] if kind != 'mia' else pool])
    cw = rng.stream(seed, 'constword')
    if cw.random() < 0.15 and (kind in ('cpa', 'dpa') or scn['classes'] is not None):
        scn['const_word'] = cw.choice([0, 7, 255])
    if kind == 'mia':
        scn['mia'] = {'lo': 0, 'hi': r.choice([16, 64, 600]), 'bins': r.choice([3, 6])}
        mr = rng.stream(seed, 'miawide')
        if mr.random() < (0.4 if prop == 'C02' else 0.3):
            # MIA bins the raw sample values and keeps counts in `precision` (any dtype; the standalone default is uint32): samples stored
            # wider than the precision, with fractional values, must reach the histogram unchanged
            scn['tdtype'] = 'float64'
            scn['half'] = True
            scn['precision'] = mr.choice(['float32', 'uint32', 'uint32', 'float64'])
    return scn, r


def settle_exact(scn):
    """Lower amplitude / widen precision until every accumulator stays exact on the actual data."""
    if scn['kind'] == 'mia':
        return scn          # MIA accumulators are counts: exact for any sample values
    while True:
        sets = make_sets(scn)
        EE = np.concatenate([expected_matrix(scn, s) for s, p in sets])
        y = 255.0 if scn['model'] == 'value' else 8.0
        prec = np.dtype(scn['precision'])
        lim = (1 << 24) if prec.itemsize == 4 else (1 << 53)
        x = float(np.abs(EE.astype('float64')).max())
        if EE.shape[0] * max(x * x, x * y, y * y) < lim:
            return scn
        if scn['amp'] > 1:
            scn['amp'] //= 2
        elif scn['precision'] != 'float64':
            scn['precision'] = 'float64'
        elif scn.get('offset'):
            scn['offset'] = 0           # (a later step of the generator made the history longer than the offset allows)
        else:
            return scn


def generate(prop, seed, tier):
    env.boot()
    if prop == 'C14':
        return generate_c14(seed, tier)
    if prop == 'C08' and rng.stream(seed, 'tplsel').random() < 0.15:
        return generate_c08_template(seed, tier)
    scn, r = gen_base(prop, seed, tier)
    if prop == 'C08' or (prop == 'C02' and scn['mode'] == 'attack' and rng.stream(seed, 'c02step').random() < 0.3):
        # C02 ranges over "any attack": an attack configured with a convergence step is one of them (the step changes the derived batch size
        # and adds intermediate computes); its final results must still be the one-shot statistic
        b = scn['rule'] if isinstance(scn['rule'], int) else 10
        N = sum(scn['sets'])
        scn['step'] = _w(r, [(1, 1), (max(1, b - 1), 1), (b, 1.5), (b + 1, 1), (2 * b, 1), (r.randint(1, max(1, N)), 3), (N + 3, 0.7), (max(1, N), 0.7),
                             (r.choice([3, 7, 10, 25]), 2)])
    if prop == 'C08' and rng.stream(seed, 'manycols').random() < 0.012:
        # more than a thousand convergence points on one attack object (growth of whatever holds the columns)
        mc = rng.stream(seed, 'manycols2')
        scn.update({'kind': mc.choice(['cpa', 'dpa']), 'sets': [mc.randint(1030, 1300)], 'step': 1, 'rule': 2000, 'm': 2, 'chain': [], 'frame': None,
                    'words': mc.choice([1, [0, 2]]), 'classes': None, 'amp': 7, 'precision': 'float64', 'nguess': 2})
        scn['model'] = ['monobit', 0] if scn['kind'] == 'dpa' else 'hw'
        scn.pop('const_word', None)
        scn.pop('wide', None)
    ru = rng.stream(seed, 'reuse')
    u_ru = ru.random()
    if prop in ('C02', 'C08') and u_ru < 0.12:
        scn['reuse'] = 'same_container' if (u_ru < 0.07 and len(scn['sets']) > 1) else 'shared'
    bi = rng.stream(seed, 'bigint')
    u_bi = bi.random()
    if scn['kind'] != 'mia' and not scn.get('step') and u_bi < 0.05:
        # 32/64-bit integer storage (sums of averaged acquisitions) with values above 2^24: exact in float64, not representable in float32 - the
        # samples must reach the accumulators of a float64 analysis without passing through a narrower type.  Few rows, so that the sums of
        # squares stay below 2^53; no preprocess (the harness preprocesses return float32 themselves)
        scn.update({'tdtype': bi.choice(['int32', 'uint32', 'int64']), 'offset': (1 << 24) + bi.choice([1, 3, 1001]), 'amp': 3, 'precision': 'float64',
                    'chain': []})
        scn['sets'] = [min(x, bi.randint(3, 12)) for x in scn['sets']][:2]
        scn.pop('rule2', None)
    elif scn['kind'] != 'mia' and u_bi < 0.10:
        scn['tdtype'] = 'uint16'                  # 16-bit unsigned acquisitions over their full range
        scn['amp'] = bi.choice([4095, 65535])
    if len(scn['sets']) > 1 and not scn.get('half') and not scn.get('offset') and rng.stream(seed, 'rundtypes').random() < 0.35:
        # each container may store its samples in another dtype (8-bit acquisition, then 12-bit in int16, then a float export)
        rd = rng.stream(seed, 'rundtypes2')
        scn['tdtypes'] = [scn['tdtype']] + [rd.choice(['uint8', 'int16', 'float32']) for _ in scn['sets'][1:]]
    if prop in ('C02', 'C08') and len(scn['sets']) > 1 and rng.stream(seed, 'rule2').random() < 0.3:
        # the process-global batch rule is changed between two run() calls
        scn['rule2'] = rng.stream(seed, 'rule2b').choice([1, 3, 7, 1e-5, [[0, 2], [3, 5]]])
    if prop == 'C16':
        fr = rng.stream(seed, 'faults')
        scn['sets'] = scn['sets'][:1]
        if scn['sets'][0] < 2:
            scn['sets'][0] = fr.randint(2, 40)
        frun = rng.stream(seed, 'faultrun')
        if frun.random() < 0.3:
            # a healthy run() first, the fault hits the second run() of the same analysis object
            scn['sets'] = [frun.randint(1, 30), scn['sets'][0]]
            scn['fault_run'] = 1
        scn['fault'] = {'kind': fr.choice(['storage_meta', 'storage_samples', 'preprocess', 'selection_function', 'pp_short', 'sf_extra_word']),
                        'batch': fr.choice([0, 0, 1, 1, 2, 3, 5, -1])}
        if scn['fault']['kind'] == 'preprocess' and not scn['chain']:
            scn['chain'] = ['cast']
        if scn['mode'] == 'attack' and fr.random() < 0.45:
            # a convergence step spanning several batches: the window bookkeeping is state a failed step could disturb
            scn['step'] = fr.choice([2, 3, 5, 7, 10, 12])
            if fr.random() < 0.7:
                scn['rule'] = fr.randint(1, max(1, scn['step'] - 1))
                scn['sets'][0] = max(scn['sets'][0], 2 * scn['step'] + fr.randint(0, 9))
        if scn['fault']['kind'] in ('pp_short', 'sf_extra_word'):
            # the batch is refused *inside* update() (trace length / word count differs from earlier batches): needs >= 2 batches, k >= 1
            N = scn['sets'][0] = max(scn['sets'][0], 3)
            scn['rule'] = fr.randint(1, max(1, N // 2))
            if scn['fault']['batch'] == 0:
                scn['fault']['batch'] = fr.choice([1, 1, 2, -1])
            if scn['fault']['kind'] == 'pp_short':
                scn['chain'] = [c for c in scn['chain'] if c != 'cast'] + ['cast']
                if scn['frame'] is not None and scn['frame'][0] in ('list', 'ndarray') and len(scn['frame'][1]) < 2:
                    scn['frame'] = None
            else:
                scn['words'] = None
    settle_exact(scn)
    return scn


def generate_c08_template(seed, tier):
    """C08 for the template attacks: build once, then matching run() calls with a convergence step."""
    scn = generate_c14(rng.H(seed, 'c08tpl'), tier)
    r = rng.stream(seed, 'workload')
    scn.update({'prop': 'C08', 'seed': seed, 'template': True, 'auto': False, 'probe_before_build': False, 'build_rule': 1000})
    if scn.get('common', 0) > 60:
        # the convergence oracle compares twins at 1e-9; with cond(S) of 1e6 and more the distances cancel to 1e-8 relative between two batch
        # partitions of the same rows (rounding, not a defect): the strongly ill-conditioned lifecycles belong to C14's own tolerance only
        del scn['common']
    if scn['style'] == 'auto':
        scn['style'] = 'range'
    if len(scn['classes']) > 12:
        scn['classes'] = scn['classes'][:9] if scn['classes'][0] == 0 else scn['classes'][-9:][::-1]
        scn['per_class'] = scn['per_class'][:9]
        scn['key'] = scn['key'] % 9
        scn['style'] = 'range'
    scn['per_class'] = [max(2, p) for p in scn['per_class']]
    nm = r.randint(2, 40)
    scn['nm'] = nm
    scn['match_cuts'] = sorted(set(r.sample(range(1, nm), r.choice([0, 0, 1, 2]) if nm > 2 else 0)))
    b = r.choice([1, 2, 3, 5, 8, 13, 50])
    scn['match_rule'] = b
    scn['step'] = _w(r, [(1, 1), (max(1, b - 1), 1), (b, 1.5), (b + 1, 1), (2 * b, 1), (r.randint(1, nm), 3), (nm + 3, 0.7), (nm, 0.7)])
    return scn


# ----------------------------------------------------------------------------- execution

def viol(oracle, sig, detail):
    return {'oracle': oracle, 'sig': [str(s) for s in sig], 'detail': detail}


class Recorder:
    def __init__(self):
        self.updates = []
        self.bounds = []
        self.computes = 0


def recording(K, rec, storage):
    class Rec(K):
        def update(self, traces, data):
            rec.updates.append((np.array(traces, copy=True), np.array(data, copy=True)))
            storage.event('update', int(traces.shape[0]))
            r = super().update(traces=traces, data=data)
            rec.bounds.append(int(self.processed_traces))
            return r

        def compute(self):
            rec.computes += 1
            storage.event('compute')
            return super().compute()
    Rec.__name__ = K.__name__
    Rec.__qualname__ = K.__qualname__
    return Rec


class _OneShot:
    pass


def standalone(scn):
    """The standalone distinguisher 'of the same kind' (C02: "applying the same distinguisher once to all traces"): not the analysis class, so
    that configuration wiring done by the Attack/Reverse classes (partitions, bin edges, precision) cannot be wrong on both sides."""
    scared = env.boot()
    kind = scn['kind']
    prec = scn['precision']
    if kind == 'cpa':
        return scared.CPADistinguisher(precision=prec)
    if kind == 'dpa':
        return scared.DPADistinguisher(precision=prec)
    if kind in ('anova', 'nicv', 'snr'):
        K = {'anova': scared.ANOVADistinguisher, 'nicv': scared.NICVDistinguisher, 'snr': scared.SNRDistinguisher}[kind]
        return K(partitions=scn['classes'], precision=prec)
    if kind == 'mia':
        return scared.MIADistinguisher(bin_edges=np.linspace(scn['mia']['lo'], scn['mia']['hi'], scn['mia']['bins'] + 1), partitions=scn['classes'], precision=prec)
    raise KeyError(kind)


def fresh_results(scn, sf, EE, DD):
    """Standalone distinguisher, fresh object, all rows in ONE update, neutral conditions; scores = discriminant(results)."""
    scared = env.boot()
    d = standalone(scn)
    with env.clock(env.SimClock()), env.memory(env.SimMemory()):
        d.update(traces=EE, data=DD)
        res = d.compute()
    a = _OneShot()
    a.results = res
    a.scores = getattr(scared, scn['discriminant'])(res) if scn['mode'] == 'attack' else None
    return a


_STORAGES = []


def execute(scn):
    scared = env.boot()
    Hook.reset()
    del _STORAGES[:]
    try:
        if scn['prop'] == 'C14':
            out = execute_c14(scn)
        elif scn.get('template'):
            out = _execute_c08_template(scn, scared)
        else:
            out = _execute(scn, scared)
        for st in _STORAGES:
            if st.harness_error is not None:
                raise RuntimeError('exception inside the storage seam of the harness: %r' % (st.harness_error,))
        return out
    finally:
        Hook.reset()
        env.reset_globals()


def _execute(scn, scared):
    prop = scn['prop']
    storage = Storage()
    _STORAGES.append(storage)
    rec = Recorder()
    sets = make_sets(scn)
    sf = make_sf(scn['mode'], scn['words'], scn['nguess'], scn.get('wide', False))
    cb = callbacks()
    pps = [cb[c] for c in scn['chain']]
    K = classes_of(scared)[scn['kind']][0 if scn['mode'] == 'attack' else 1]
    att = recording(K, rec, storage)(**analysis_kwargs(scn, sf, scn.get('step')))
    model = make_model(scn)
    probes = {}
    faults = {}
    violation = None
    inconclusive = False

    def probe(k, n=1):
        probes[k] = probes.get(k, 0) + n

    fault = scn.get('fault')
    state = {'meta_fetch': 0, 'arm_samples': False, 'target': -1}      # target = ordinal of the metadata read that opens the faulty batch (-1: none yet)
    if fault:
        fk = 'storage_read_error' if fault['kind'].startswith('storage') else ('refused_in_update' if fault['kind'] in ('pp_short', 'sf_extra_word') else 'callback_error')
        faults[fk + ':' + fault['kind']] = [1, 0]

        def on_fetch(kind, tag, ids, key):
            if kind == 'meta' and key == 'plaintext':
                state['meta_fetch'] += 1
                if state['meta_fetch'] == state['target']:
                    if fault['kind'] == 'storage_meta':
                        Hook.fired = 'storage_read_error:meta'
                        raise InjectedIOError('injected metadata read error')
                    if fault['kind'] == 'storage_samples':
                        state['arm_samples'] = True
                    if fault['kind'] == 'preprocess':
                        Hook.pp_armed = True
                    if fault['kind'] == 'pp_short':
                        Hook.pp_short_armed = True
            if kind == 'samples' and state['arm_samples']:
                state['arm_samples'] = False
                Hook.fired = 'storage_read_error:samples'
                raise InjectedIOError('injected samples read error')
        storage.on_fetch = on_fetch

    set_rule(scared, scn['rule'])
    allE, allD = [], []
    cols_after_run = []
    run_exc = None
    clock = env.SimClock()
    with env.clock(clock), env.memory(env.SimMemory()):
        for j, (samples, pt) in enumerate(sets):
            if j >= 1 and scn.get('rule2') is not None:
                set_rule(scared, scn['rule2'])
            ths = make_ths(storage, samples, {'plaintext': pt}, 'set%d' % j)
            if not pps and scn['seed'] % 2 == 0:
                # defaults left to the library (a mutable default shared between Container objects would show here)
                container = scared.Container(ths, frame=np_frame(scn['frame'])) if scn['frame'] is not None else scared.Container(ths)
            else:
                container = scared.Container(ths, frame=np_frame(scn['frame']), preprocesses=(pps[0] if (len(pps) == 1 and scn['seed'] % 3 == 0) else list(pps)))
            if scn.get('reuse') == 'same_container' and not fault:
                if j == 0:
                    first_container = container
                else:
                    container = first_container         # a Container is a description of a trace set, not a one-shot iterator
                    probe('container_run_again')
            if scn.get('reuse') == 'shared' and not fault and j == 0:
                # another analysis object goes over the same Container object first: nothing it does may reach this one
                other = K(**analysis_kwargs(scn, sf, None))
                try:
                    other.run(container)
                    probe('container_shared_with_another_analysis')
                except Exception:
                    pass
            E = expected_matrix(scn, samples)
            D = expected_data(scn, model, pt)
            Hook.sf_calls = 0
            if fault and j == scn.get('fault_run', 0):
                # scout: the same analysis on the same rows over a separate fake storage, no fault: observes the batch partition run() really
                # uses (with a convergence step it is derived, not the container's) and gives the fault-free convergence trace for calibration
                scout_rec, st2 = Recorder(), Storage()
                scout = recording(K, scout_rec, st2)(**analysis_kwargs(scn, sf, scn.get('step')))
                if allE:
                    # earlier healthy runs: the scout goes through them as well (same derived batch sizes, same window state)
                    for jj, (s_prev, p_prev) in enumerate(sets[:j]):
                        scout.run(scared.Container(make_ths(st2, s_prev, {'plaintext': p_prev}, 'scoutpre%d' % jj), frame=np_frame(scn['frame']), preprocesses=list(pps)))
                    del scout_rec.updates[:]

                def mk_cont(lo, hi, tag, st=st2):
                    return scared.Container(make_ths(st, samples[lo:hi], {'plaintext': pt[lo:hi]}, tag), frame=np_frame(scn['frame']), preprocesses=list(pps))
                try:
                    scout.run(mk_cont(0, len(samples), 'scout'))
                except Exception:
                    return {'violation': None, 'inconclusive': True, 'digest': 'scout-failed', 'case': 'scout-failed', 'nontrivial': False, 'faults': faults,
                            'probes': probes, 'sim_time': 0}
                lens = [len(u[0]) for u in scout_rec.updates]
                if not lens:
                    return {'violation': None, 'inconclusive': True, 'digest': 'unobservable', 'case': 'unobservable', 'nontrivial': False, 'faults': faults,
                            'probes': {'update_boundary_unobservable': 1}, 'sim_time': 0}
                bs = lens[0]
                nb = len(lens)
                Hook.sf_calls = 0
                Hook.pp_calls = 0
                k = fault['batch'] if fault['batch'] >= 0 else nb - 1
                k = min(k, nb - 1)
                if fault['kind'] in ('pp_short', 'sf_extra_word'):
                    k = max(k, 1)
                    if nb < 2:
                        return {'violation': None, 'inconclusive': True, 'digest': 'one-batch', 'case': 'one-batch', 'nontrivial': False, 'faults': faults,
                                'probes': probes, 'sim_time': 0}
                state['target'] = k + 1
                state['meta_fetch'] = 0
                if fault['kind'] == 'selection_function':
                    Hook.sf_raise_at = k + 1
                if fault['kind'] == 'sf_extra_word':
                    Hook.sf_extra_at = k + 1
                try:
                    att.run(container)
                except (InjectedIOError, InjectedFault) as e:
                    run_exc = e
                except Exception as e:
                    run_exc = e
                return _after_fault(scn, scared, att, rec, storage, sf, E, D, samples, pt, run_exc, faults, probes, pps, k, bs, K=K, scout=scout, mk_cont=mk_cont,
                                    preE=(np.concatenate(allE) if allE else None), preD=(np.concatenate(allD) if allD else None))
            try:
                att.run(container)
            except Exception as e:
                # a valid run must succeed whenever the one-shot twin does
                try:
                    fresh_results(scn, sf, np.concatenate(allE + [E]), np.concatenate(allD + [D]))
                    violation = viol('run_raised', [prop, 'run_raised', scn['kind'], scn['mode'], type(e).__name__], 'run %d raised %r' % (j, e))
                except Exception:
                    inconclusive = True
                break
            allE.append(E)
            allD.append(D)
            EE = np.concatenate(allE)
            DD = np.concatenate(allD)
            # (1) exactly once, in order, own metadata - at the update boundary
            if rec.updates:
                T = np.concatenate([u[0] for u in rec.updates])
                D2 = np.concatenate([u[1] for u in rec.updates])
                # values and shape are judged, not the storage dtype: an implementation may cast a batch before update() as long as the results
                # (oracle 2) are those of the one-shot computation
                if not (T.shape == EE.shape and np.array_equal(T, EE)):
                    violation = viol('traces_not_exactly_once_in_order', [prop, 'traces_not_exactly_once_in_order', scn['kind'], scn['mode']],
                                     'run %d: update() saw %s rows, expected %s; batch lengths %s' % (j, T.shape, EE.shape, [len(u[0]) for u in rec.updates]))
                    break
                if not (D2.shape == DD.shape and np.array_equal(D2, DD)):
                    violation = viol('data_not_own_metadata', [prop, 'data_not_own_metadata', scn['kind'], scn['mode']],
                                     'run %d: intermediate values passed to update() differ from model(sf(metadata)) of the same rows; shapes %s vs %s' % (j, D2.shape, DD.shape))
                    break
            else:
                probe('update_boundary_unobservable')
            # (2) one-shot twin
            ref = fresh_results(scn, sf, EE, DD)
            if not compare.bitwise(att.results, ref.results):
                violation = viol('results_differ_from_one_shot', [prop, 'results_differ_from_one_shot', scn['kind'], scn['mode']],
                                 'run %d: maxdiff=%s got=%s want=%s; batch lengths %s' % (j, compare.maxdiff(att.results, ref.results), compare.describe(att.results),
                                                                                        compare.describe(ref.results), [len(u[0]) for u in rec.updates]))
                break
            if scn['kind'] in ('anova', 'nicv', 'snr'):
                # (2b) the documented accumulators (sum, sum_square, counters per (sample, data word, class)) against their definition, computed with
                # plain numpy from the expected rows: independent of anything cached or shared inside scared (a poisoned value->class lookup is
                # wrong in the twin as well).  Exact regime: integer sums, compared exactly.  Layout not as documented -> not observable, no alarm.
                d = _partitioned_accumulators_mismatch(att, EE, DD)
                if d == 'unobservable':
                    probe('accumulators_unobservable')
                elif d:
                    violation = viol('accumulators_differ_from_definition', [prop, 'accumulators_differ_from_definition', scn['kind'], scn['mode']], 'run %d: %s' % (j, d))
                    break
            if scn['mode'] == 'attack':
                # (3) scores == discriminant(results)
                want = getattr(scared, scn['discriminant'])(att.results)
                if not compare.bitwise(att.scores, want):
                    violation = viol('scores_not_discriminant_of_results', [prop, 'scores_not_discriminant_of_results', scn['kind']],
                                     'run %d: scores %s vs discriminant(results) %s' % (j, compare.describe(att.scores), compare.describe(want)))
                    break
                if prop == 'C08' and not compare.bitwise(att.scores, ref.scores):
                    violation = viol('convergence_changes_scores', [prop, 'convergence_changes_scores', scn['kind']],
                                     'run %d: scores with convergence_step=%s differ from the attack without' % (j, scn['step']))
                    break
            ct = getattr(att, 'convergence_traces', None)
            cols_after_run.append(0 if ct is None else int(ct.shape[-1]))
        if violation is None and not inconclusive and prop == 'C08' and allE:
            violation = _check_convergence(scn, scared, att, rec, sf, np.concatenate(allE), np.concatenate(allD), cols_after_run, probes)
    lens = [len(u[0]) for u in rec.updates]
    if lens:
        if any(x == 1 for x in lens[1:]) or (len(lens) > 1 and lens[-1] == 1):
            probe('tail_of_1')
        if len(lens) == len(sets):
            probe('N_smaller_than_batch')
        if len(set(lens)) == 1 and len(lens) > len(sets):
            probe('N_multiple_of_batch')
        if isinstance(scn['rule'], float):
            probe('mb_rule')
            if 10 in lens:
                probe('mb_floor_hit')
        if isinstance(scn['rule'], list):
            probe('table_rule')
    case = rng.digest([scn['kind'], scn['mode'], lens, (scn['frame'] or ['none'])[0], scn['chain'], type(scn['rule']).__name__, scn.get('step'), cols_after_run])
    return {'violation': violation, 'inconclusive': inconclusive, 'digest': rng.digest([storage.events, lens]), 'case': case,
            'nontrivial': len(lens) > len(sets) if prop != 'C08' else (cols_after_run[-1] >= 2 if cols_after_run else False),
            'faults': faults, 'probes': probes, 'sim_time': storage.seq, 'counts': {'updates': len(lens), 'storage_fetches': sum(storage.counts.values())}}


def _partitioned_accumulators_mismatch(att, EE, DD):
    try:
        parts = np.asarray(att.partitions)
        S, Q, C = np.asarray(att.sum), np.asarray(att.sum_square), np.asarray(att.counters)
    except Exception:
        return 'unobservable'
    D = np.asarray(DD).reshape(len(DD), -1)
    X = np.asarray(EE).astype('float64')
    m, W, P = X.shape[1], D.shape[1], len(parts)
    if S.shape != (m, W, P) or Q.shape != (m, W, P) or C.shape != (W, P):
        return 'unobservable'
    rs = np.zeros((m, W, P))
    rq = np.zeros((m, W, P))
    rc = np.zeros((W, P))
    for ci, v in enumerate(parts.tolist()):
        M = (D == v).astype('float64')             # rows x words
        rc[:, ci] = M.sum(0)
        rs[:, :, ci] = X.T @ M
        rq[:, :, ci] = (X * X).T @ M
    for name, got, want in (('counters', C, rc), ('sum', S, rs), ('sum_square', Q, rq)):
        if not np.array_equal(got.astype('float64'), want.astype(got.dtype).astype('float64')):
            bad = np.argwhere(got.astype('float64') != want.astype(got.dtype).astype('float64'))[0].tolist()
            return '%s%s is %r, definition gives %r (classes %s)' % (name, bad, float(got[tuple(bad)]), float(want[tuple(bad)]), parts.tolist()[:12])
    return None


def _manual_prefix(scn, scared, K, sf, cont, bs, upto, final=False):
    """Model of a run() that processed the first `upto` batches: the public pieces of the run loop driven by the harness
    (Container.batches(batch_size), process) plus the per-batch hook run() calls. Raises AttributeError if the tree has no such hook."""
    a = K(**analysis_kwargs(scn, sf, scn.get('step')))
    for i, b in enumerate(cont.batches(batch_size=bs)):
        if upto is not None and i >= upto:
            break
        a.process(b)
        a._batch_loop_compute()
    if final:
        a._final_compute()
    return a


def _after_fault(scn, scared, att, rec, storage, sf, E, D, samples, pt, run_exc, faults, probes, pps, k, bs, K=None, scout=None, mk_cont=None, preE=None, preD=None):
    prop = 'C16'
    fk = list(faults)[0]
    violation = None
    fired = Hook.fired is not None
    faults[fk][1] = int(fired)
    done = sum(len(u[0]) for u in rec.updates)
    kind = scn['kind']
    fkind = scn['fault']['kind']
    if not fired:
        return {'violation': None, 'inconclusive': True, 'digest': rng.digest(storage.events), 'case': 'nofire', 'nontrivial': False, 'faults': faults,
                'probes': probes, 'sim_time': storage.seq}
    probes['fault_on_first_batch' if k == 0 else 'fault_on_later_batch'] = 1
    if run_exc is None:
        # the step did not raise: C16 says nothing
        return {'violation': None, 'inconclusive': True, 'digest': rng.digest(storage.events), 'case': 'noraise', 'nontrivial': False, 'faults': faults,
                'probes': probes, 'sim_time': storage.seq}
    expect_rows = k * bs
    Hook.sf_raise_at = None
    Hook.sf_extra_at = None
    storage.on_fetch = None
    npre = 0 if preE is None else len(preE)

    def withpre(X, P):
        return X if P is None else np.concatenate([P, X])
    try:
        if att.processed_traces != npre + expect_rows:
            violation = viol('count_changed', [prop, 'count_changed', kind, 'run:' + fkind],
                             'run() failed on batch %d with %r; processed_traces=%s but %s rows were accepted' % (k, run_exc, att.processed_traces, npre + expect_rows))
        if violation is None and npre + expect_rows >= 1:
            ref = fresh_results(scn, sf, withpre(E[:expect_rows], preE), withpre(D[:expect_rows], preD))
            try:
                att.compute_results()
                if not compare.bitwise(att.results, ref.results):
                    violation = viol('result_differs_from_accepted_only', [prop, 'result_differs_from_accepted_only', kind, 'run:' + fkind],
                                     'after failed run (batch %d): maxdiff=%s' % (k, compare.maxdiff(att.results, ref.results)))
                elif scn['mode'] == 'attack' and not compare.bitwise(att.scores, ref.scores):
                    violation = viol('result_differs_from_accepted_only', [prop, 'result_differs_from_accepted_only', kind, 'run:' + fkind, 'scores'],
                                     'after failed run (batch %d): scores are not those of the accepted batches' % k)
            except Exception as e:
                violation = viol('compute_raised', [prop, 'compute_raised', kind, 'run:' + fkind], 'compute_results after failed run raised %r' % (e,))
        if violation is None and expect_rows < len(samples):
            rest = make_ths(storage, samples[expect_rows:], {'plaintext': pt[expect_rows:]}, 'rest')
            rest_frame = np_frame(scn['frame'])
            if npre + expect_rows == 0 and scn['seed'] % 2 == 0 and scn['m'] >= 3:
                # nothing has been accepted: the next valid run is free to come with another geometry (another frame, hence trace size)
                alt = dict(scn, frame=['slice', 1, scn['m'] - 1, None] if (scn['frame'] or ['x'])[0] != 'slice' else ['list', [0, scn['m'] - 1, 1]])
                rest_frame = np_frame(alt['frame'])
                E = expected_matrix(alt, samples)
                probes['other_geometry_after_refused_first_run'] = 1
            with env.clock(env.SimClock()), env.memory(env.SimMemory()):
                try:
                    att.run(scared.Container(rest, frame=rest_frame, preprocesses=list(pps)))
                    ref = fresh_results(scn, sf, withpre(E, preE), withpre(D, preD))
                    if att.processed_traces != npre + len(samples):
                        violation = viol('count_changed', [prop, 'count_changed', kind, 'run:' + fkind, 'after_rest'],
                                         'processed_traces=%s after running the remaining rows, expected %s' % (att.processed_traces, npre + len(samples)))
                    elif not compare.bitwise(att.results, ref.results):
                        violation = viol('result_differs_from_accepted_only', [prop, 'result_differs_from_accepted_only', kind, 'run:' + fkind, 'after_rest'],
                                         'remaining rows after failed run: maxdiff=%s' % compare.maxdiff(att.results, ref.results))
                    elif scn.get('step') and scn['mode'] == 'attack' and K is not None and preE is None and not probes.get('other_geometry_after_refused_first_run'):
                        violation = _convergence_after_fault(scn, scared, att, K, sf, scout, mk_cont, samples, k, bs, expect_rows, probes, kind, fkind)
                except Exception as e:
                    first = npre + expect_rows == 0
                    violation = viol('valid_call_rejected_after_refusal', [prop, 'valid_call_rejected_after_refusal', kind, 'run:' + fkind, 'first' if first else 'later'],
                                     'run over the remaining rows raised %r' % (e,))
    finally:
        pass
    case = rng.digest([kind, scn['mode'], fkind, k, bs, len(samples)])
    return {'violation': violation, 'inconclusive': False, 'digest': rng.digest(storage.events), 'case': case, 'nontrivial': True, 'faults': faults,
            'probes': probes, 'sim_time': storage.seq}


def _convergence_after_fault(scn, scared, att, K, sf, scout, mk_cont, samples, k, bs, expect_rows, probes, kind, fkind):
    """The convergence trace is a 'later result' too: after the failed run and the run over the remaining rows it must be that of an attack
    which went through the accepted batches only.  The accepted-only twin is driven through the public run-loop pieces; the model is first
    calibrated against the fault-free scout (if this tree's run() cannot be modelled that way the oracle is skipped, never alarmed)."""
    n = len(samples)
    try:
        cal = _manual_prefix(scn, scared, K, sf, mk_cont(0, n, 'cal'), bs, None, final=True)
        ok = _same_ct(cal, scout)
    except Exception:
        ok = False
    if not ok:
        probes['convergence_twin_model_unfaithful'] = 1
        return None
    twin = _manual_prefix(scn, scared, K, sf, mk_cont(0, n, 'twin'), bs, k)
    twin.run(mk_cont(expect_rows, n, 'twinrest'))
    probes['convergence_twin_checked'] = 1
    if not _same_ct(att, twin):
        a, b = getattr(att, 'convergence_traces', None), getattr(twin, 'convergence_traces', None)
        return viol('convergence_differs_from_accepted_only', ['C16', 'convergence_differs_from_accepted_only', kind, 'run:' + fkind],
                    'after the failed run (batch %d of size %d refused) and a run over the remaining rows, convergence_traces has shape %s, the accepted-only twin %s; step %s' % (
                        k, bs, None if a is None else a.shape, None if b is None else b.shape, scn['step']))
    return None


def _same_ct(x, y):
    a, b = getattr(x, 'convergence_traces', None), getattr(y, 'convergence_traces', None)
    if a is None or b is None:
        return a is None and b is None
    return compare.bitwise(a, b)


def _execute_c08_template(scn, scared):
    storage = Storage()
    rec = Recorder()
    Tb, vb, Tm, ptm, vm = c14_data(scn)
    classes = list(scn['classes'])
    k = len(classes)
    kind = scn['kind']
    nm = len(Tm)
    probes = {}
    violation = None

    def mk_attack(step, record):
        ths = make_ths(storage, Tb, {'value': vb[:, None].copy()}, 'build')
        rsf = scared.reverse_selection_function(kinds._value_sf)
        if kind == 'tstatic':
            K, kw = scared.TemplateAttack, {}
        else:
            K = scared.TemplateDPAAttack
            kw = {'selection_function': scared.attack_selection_function(kinds._make_leak_sf(classes, scn.get('hdtype') or scn.get('vdtype') or 'uint8'), guesses=range(scn.get('tguess') or k), words=0)}
        if record:
            K = recording(K, rec, storage)
        a = K(container_building=scared.Container(ths), reverse_selection_function=rsf, model=scared.Value(), partitions=classes,
              precision=scn['precision'], convergence_step=step, **kw)
        a.build()
        return a

    def mk_container(lo, hi, tag):
        meta = {'value': vm[lo:hi, None].copy()} if kind == 'tstatic' else {'plaintext': ptm[lo:hi]}
        return scared.Container(make_ths(storage, Tm[lo:hi], meta, tag))

    DD = vm[:, None].copy() if kind == 'tstatic' else np.stack([kinds.leak(classes, ptm[:, 0], g, scn.get('hdtype') or scn.get('vdtype') or 'uint8') for g in range(scn.get('tguess') or k)], 1)
    tol = compare.tol_for(scn['precision'])
    cols_after_run = []
    with env.clock(env.SimClock()), env.memory(env.SimMemory()):
        scared.set_batch_size(1000)
        att = mk_attack(scn['step'], True)
        plain = mk_attack(None, False)
        scared.set_batch_size(scn['match_rule'])
        cuts = [c for c in scn['match_cuts'] if 0 < c < nm]
        b = [0] + cuts + [nm]
        for j, (lo, hi) in enumerate(zip(b, b[1:])):
            att.run(mk_container(lo, hi, 'match%d' % j))
            plain.run(mk_container(lo, hi, 'plain%d' % j))
            ct = getattr(att, 'convergence_traces', None)
            cols_after_run.append(0 if ct is None else int(ct.shape[-1]))
            if not compare.close(att.scores, plain.scores, tol):
                violation = viol('convergence_changes_scores', ['C08', 'convergence_changes_scores', kind], 'run %d: scores differ from the attack without convergence_step' % j)
                break
        if violation is None and rec.updates:
            T = np.concatenate([u[0] for u in rec.updates])
            if T.shape == Tm.shape and compare.bitwise(T, Tm):
                violation = _check_convergence(scn, scared, att, rec, None, Tm, DD, cols_after_run, probes, fresh=lambda: mk_attack(None, False), tol=tol)
            else:
                probes['update_boundary_unobservable'] = 1
    lens = [len(u[0]) for u in rec.updates]
    case = rng.digest([kind, classes, scn['step'], lens, cols_after_run])
    return {'violation': violation, 'inconclusive': False, 'digest': rng.digest([storage.events, lens]), 'case': case,
            'nontrivial': bool(cols_after_run) and cols_after_run[-1] >= 2, 'faults': {}, 'probes': probes, 'sim_time': storage.seq,
            'counts': {'template_convergence_runs': 1}}


def _check_convergence(scn, scared, att, rec, sf, EE, DD, cols_after_run, probes, fresh=None, tol=None):
    prop = 'C08'
    step = scn['step']
    ct = getattr(att, 'convergence_traces', None)
    total = len(EE)
    bounds = sorted(set(int(b) for b in np.cumsum([len(u[0]) for u in rec.updates])))
    if ct is None:
        # no column at all: legal only if ... the property promises a last column equal to the final scores
        return viol('no_convergence_traces', [prop, 'no_convergence_traces', scn['kind']], 'convergence_step=%s, %d rows, no convergence_traces' % (step, total))
    ncol = ct.shape[-1]
    def same(x, y):
        return compare.bitwise(x, y) if tol is None else compare.close(x, y, tol)

    # columns are judged in the requested precision (not in whatever dtype the trace happens to be stored in)
    # (an integer precision - MIA keeps counts - does not type the scores: they are float64 whatever the stored array says)
    cdt = np.dtype(scn['precision']) if np.dtype(scn['precision']).kind == 'f' else np.dtype('float64')
    ct = np.asarray(ct).astype(cdt)
    if not same(ct[..., -1], np.asarray(att.scores).astype(cdt)):
        return viol('last_column_not_final_scores', [prop, 'last_column_not_final_scores', scn['kind']], 'last column differs from scores')
    sc_at = {}
    for b in bounds:
        try:
            if fresh is not None:
                a = fresh()             # template attacks: a fresh built attack object (there is no standalone matching distinguisher)
                with env.clock(env.SimClock()), env.memory(env.SimMemory()):
                    a.update(traces=EE[:b], data=DD[:b])
                    a.compute_results()
            else:
                a = fresh_results(scn, sf, EE[:b], DD[:b])
            sc_at[b] = np.asarray(a.scores).astype(cdt)
        except Exception:
            pass
    cands = [[b for b in bounds if b in sc_at and same(sc_at[b], ct[..., c])] for c in range(ncol)]
    last_of_run = set(c - 1 for c in cols_after_run if c > 0)

    def feasible():
        # forward reachability over (last point, last regular point): iterative, any number of columns
        states = {(0, 0)}
        for c in range(ncol):
            nxt = set()
            for prev, prevreg in states:
                for p in cands[c]:
                    if p <= prev or (c == ncol - 1 and p != total):
                        continue
                    if p - prevreg >= step:
                        nxt.add((p, p))
                    if c in last_of_run:
                        nxt.add((p, prevreg))
            states = nxt
            if not states:
                return False
        return any(prev == total for prev, _ in states)
    if not feasible():
        empty = [c for c in range(ncol) if not cands[c]]
        if empty:
            return viol('column_not_a_prefix_score', [prop, 'column_not_a_prefix_score', scn['kind']],
                        'column(s) %s equal the fresh-attack scores of no observed batch boundary %s (step %s, columns per run %s)' % (empty, bounds, step, cols_after_run))
        return viol('no_valid_point_assignment', [prop, 'no_valid_point_assignment', scn['kind']],
                    'no strictly increasing, >= step apart assignment ending at the total: candidates %s, step %s, total %s, columns per run %s' % (
                        cands, step, total, cols_after_run))
    if ncol >= 2:
        probes['columns_ge_2'] = probes.get('columns_ge_2', 0) + 1
    if step > total:
        probes['step_gt_N'] = 1
    if total % step:
        probes['step_not_dividing_N'] = 1
    return None


# ----------------------------------------------------------------------------- C14

C14_LISTS = ['range', 'shift', 'perm', 'gap', 'auto', 'permmid', 'bigrange']


def generate_c14(seed, tier):
    r = rng.stream(seed, 'workload')
    thorough = tier == 'thorough'
    k = r.randint(2, 6)
    style = _w(r, [('range', 3), ('shift', 2), ('perm', 2), ('gap', 2), ('auto', 1.5), ('permmid', 1.2), ('bigrange', 0.6)])
    if style == 'range':
        classes = list(range(k))
    elif style == 'shift':
        s = r.randint(1, 5)
        classes = [c + s for c in range(k)]
    elif style == 'perm':
        classes = r.sample(range(k), k)
    elif style == 'permmid':
        # looks like range(k) from both ends (first class 0, last class k-1) but the middle is permuted
        k = max(k, 4)
        mid = list(range(1, k - 1))
        while mid == list(range(1, k - 1)):
            r.shuffle(mid)
        classes = [0] + mid + [k - 1]
    elif style == 'gap':
        classes = sorted(r.sample(range(0, 3 * k), k))
        if r.random() < 0.5:
            r.shuffle(classes)
    elif style == 'bigrange':
        # many classes, declared explicitly (a byte-valued profile has 256): limits on the number of templates / operands only show here
        k = r.choice([64, 70, 100, 256])
        classes = list(range(k)) if r.random() < 0.7 else list(range(k))[::-1]
    else:
        k = r.choice([9, 9, 9, 64, 256]) if not thorough else r.choice([9, 9, 64, 64, 256])
        classes = list(range(k))
    per = [r.randint(2, 7 if k <= 9 else 3) for _ in range(k)]
    L = r.randint(1, 6)
    # declared classes that receive no (or a single) building trace: the statement averages over the *declared* classes, so such a class
    # contributes a zero matrix and still counts in the divisor; its template is not defined and is not compared
    er = rng.stream(seed, 'emptyclasses')
    if k >= 3 and er.random() < 0.2:
        cand = list(range(k - 1)) if style == 'auto' else list(range(k))
        for ci in er.sample(cand, er.randint(1, min(len(cand), k - 2))):
            per[ci] = er.choice([0, 0, 1])
    # well-conditioned pooled covariance: within-class degrees of freedom comfortably above the trace length
    pop = [i for i in range(k) if per[i] >= 2]
    ci = 0
    while sum(per[i] - 1 for i in pop) < 2 * L + 2:
        per[pop[ci % len(pop)]] += 1
        ci += 1
    scn = {'prop': 'C14', 'engine': 'pipeline', 'seed': seed, 'kind': r.choice(['tstatic', 'tdpa']), 'style': style, 'classes': classes,
           'auto': style == 'auto', 'L': L, 'precision': r.choice(['float32', 'float64']),
           'tdtype': r.choice(['float32', 'float64', 'int16'] if thorough else ['float32', 'float32', 'int16']), 'per_class': per,
           'nm': r.randint(1, 40), 'table_seed': rng.H(seed, 'table'),
           'build_rule': r.choice([1, 2, 3, 7, 50, 1000]), 'build_rule_2': r.choice([1, 5, 13, 1000]),
           'match_rule': r.choice([1, 2, 5, 11, 1000]), 'match_cuts': sorted(set(r.sample(range(1, 40), r.choice([0, 0, 1, 2])))),
           'probe_before_build': r.random() < 0.35, 'key': r.randrange(k), 'noise': r.choice([2, 3]),
           'clock': None, 'threads': r.choice([1, 1, 2, 16])}
    # storage dtype of the class values (building metadata, matching metadata / hypothesis values)
    scn['vdtype'] = rng.stream(seed, 'vdtype').choice(['uint8', 'uint8', 'uint16', 'uint32', 'int16', 'int32'])
    # float32 precision only where the second-moment cancellation (sum x^2 - n mean^2) is benign: with class means far from zero relative
    # to the noise the float32 accumulators lose the covariance's leading digits - rounding of the requested precision, not a defect, but not
    # comparable with a float64 model at 1e-3.  Such lifecycles run at float64 precision instead.
    cm = rng.stream(seed, 'common')
    if L >= 2 and cm.random() < 0.12:
        # common-mode noise (drift, supply ripple) much larger than the per-sample noise: the samples are strongly correlated, the pooled
        # covariance is regular but ill-conditioned (cond ~ 5e3 / 2e6 / 1e9) and the classes are visible in the small directions only - an
        # inverse that drops or damps those directions (a singular-value cutoff) gets every score wrong.  Judged with a tolerance that grows
        # with cond * eps of the requested precision (execute_c14).
        scn['common'] = cm.choice([60, 60, 1000, 30000])
        if scn['common'] > 60:
            scn['precision'] = 'float64'
        if scn['common'] == 30000:
            scn['tdtype'] = 'int16' if scn['tdtype'] == 'int16' else 'float32'
    if scn['precision'] == 'float32' and not scn.get('common'):
        Tb_ = c14_data(scn)[0].astype('float64')
        a_ = scn['noise']
        if float((Tb_ ** 2).max()) / (a_ * (a_ + 1) / 3.0) > 1e3:
            scn['precision'] = 'float64'
    if np.dtype(scn['tdtype']).kind == 'f' and not scn.get('common'):
        scn['scale'] = rng.stream(seed, 'scale').choice([1, 1, 1, 1e-4, 250.0])
        if scn['scale'] != 1 and scn['precision'] == 'float32' and scn['tdtype'] == 'float64':
            scn['precision'] = 'float64'
    if L >= 2 and rng.stream(seed, 'zerocol').random() < 0.12 and not scn.get('common'):
        scn['zero_col'] = rng.stream(seed, 'zerocol2').randrange(L)
    hd = rng.stream(seed, 'hdtype')
    if scn['kind'] == 'tdpa' and hd.random() < 0.3:
        # the hypothesis values of the matching phase come from the attack selection function, not from the building metadata: their dtype is
        # its own (numpy's default int64 for a table written without a dtype)
        scn['hdtype'] = hd.choice(['int64', 'int64', 'uint64', 'uint8', 'int32', 'uint16'])
    tg = rng.stream(seed, 'tguess')
    if scn['kind'] == 'tdpa' and tg.random() < 0.3:
        # the number of key guesses is not the number of classes (256 guesses over 9 Hamming-weight classes is the standard configuration)
        scn['tguess'] = min(256, tg.choice([1, 2, k + 1, 2 * k, 16, 256] if k <= 12 else [1, 2, k + 1, 16]))      # guesses are bytes in scared
    hs = rng.stream(seed, 'history')
    scn['build_twice'] = hs.random() < 0.12
    scn['build_fault'] = hs.choice([0, 0, 1, 2, 3]) if hs.random() < 0.12 else None
    return scn


def c14_data(scn):
    g = rng.np_stream(scn['table_seed'], 'c14')
    classes = list(scn['classes'])
    k = len(classes)
    L = scn['L']
    vals = []
    for ci, n in enumerate(scn['per_class']):
        vals += [ci] * n
    vals = np.array(vals)
    g.shuffle(vals)
    if scn['auto']:
        # first batch decisive for the automatic class set: the maximum comes first (DESIGN 4.3)
        j = int(np.argmax(vals == k - 1))
        vals[0], vals[j] = vals[j], vals[0]
    gains = g.integers(1, 4, L)
    a = scn['noise']
    Tb = vals[:, None] * gains[None, :] + g.integers(-a, a + 1, (len(vals), L))
    cval = np.array(classes)
    vb = cval[vals].astype(scn.get('vdtype') or ('uint8' if max(classes) < 256 else 'uint16'))
    nm = scn['nm']
    ptm = g.integers(0, k, (nm, 1)).astype('uint8')
    posm = (ptm[:, 0].astype(int) + scn['key']) % k
    Tm = posm[:, None] * gains[None, :] + g.integers(-a, a + 1, (nm, L))
    if scn.get('common'):
        gc = rng.np_stream(scn['table_seed'], 'c14common')
        A = int(scn['common'])
        Tb = Tb + gc.integers(-A, A + 1, (len(vals), 1))
        Tm = Tm + gc.integers(-A, A + 1, (nm, 1))
    zc = scn.get('zero_col')
    if zc is not None and L >= 2:
        # one sample identically zero in every trace (padding after resynchronisation): the pooled covariance is exactly singular and the
        # statement's pseudo-inverse, not an inverse, defines the scores
        Tb[:, zc % L] = 0
        Tm[:, zc % L] = 0
    td = scn['tdtype']
    sc = scn.get('scale') or 1
    if sc != 1:
        # traces in another physical unit (volts instead of ADC counts): everything the statement defines is scale covariant
        return (Tb * sc).astype(td), vb, (Tm * sc).astype(td), ptm, cval[posm].astype(vb.dtype)
    return Tb.astype(td), vb, Tm.astype(td), ptm, cval[posm].astype(vb.dtype)


def c14_model(Tb, vb, classes, Tm, hyp=None):
    """Definitional reference (independent of scared), float64."""
    T = Tb.astype('float64')
    M = Tm.astype('float64')
    L = T.shape[1]
    mus = np.array([T[vb == c].mean(0) if (vb == c).any() else np.full(L, np.nan) for c in classes])
    covs = [np.atleast_2d(np.cov(T[vb == c].T, ddof=1)) if (vb == c).sum() >= 2 else np.zeros((L, L)) for c in classes]
    S = np.sum(covs, axis=0) / len(classes)
    P = np.linalg.pinv(S)
    n = M.shape[0]
    if hyp is None:
        sc = [10 - sum(float((t - mu) @ P @ (t - mu)) for t in M) / (n * L) for mu in mus]
    else:
        idx = {int(c): i for i, c in enumerate(classes)}
        sc = [10 - sum(float((t - mus[idx[int(h)]]) @ P @ (t - mus[idx[int(h)]])) for t, h in zip(M, hyp[:, g])) / (n * L) for g in range(hyp.shape[1])]
    return mus, S, np.array(sc)


def _c14_attack(scn, scared, storage, Tb, vb, tag='build', like=None):
    """like = another attack object: the new one is created on the SAME building Container, reverse selection function and model objects."""
    classes = None if scn['auto'] else list(scn['classes'])
    k = len(scn['classes'])
    if like is None:
        cont = scared.Container(make_ths(storage, Tb, {'value': vb[:, None].copy()}, tag))
        rsf = scared.reverse_selection_function(kinds._value_sf)
        model = scared.Value()
    else:
        cont, rsf, model = like.container_building, like._c14_rsf, like.model
    if scn['kind'] == 'tstatic':
        a = scared.TemplateAttack(container_building=cont, reverse_selection_function=rsf, model=model, partitions=classes, precision=scn['precision'])
    else:
        asf = scared.attack_selection_function(kinds._make_leak_sf(list(scn['classes']), scn.get('hdtype') or scn.get('vdtype') or 'uint8'), guesses=range(scn.get('tguess') or k), words=0)
        a = scared.TemplateDPAAttack(container_building=cont, reverse_selection_function=rsf, selection_function=asf,
                                     model=model, partitions=classes, precision=scn['precision'])
    a._c14_rsf = rsf
    return a


def execute_c14(scn):
    import numba
    scared = env.boot()
    storage = Storage()
    Tb, vb, Tm, ptm, vm = c14_data(scn)
    classes = list(scn['classes'])
    k = len(classes)
    kind = scn['kind']
    probes = {}
    violation = None
    prec = scn['precision']
    tol = compare.tol_for(prec, independent=True)
    sc_ = float(scn.get('scale') or 1)
    ttol, ctol = tol * sc_, tol * sc_ * sc_              # absolute terms in the unit of the templates / of the covariance
    sig_tail = [kind, scn['style']]
    c14_faults = {}
    failed_sibling = None

    def mk_container(lo, hi, tag):
        if kind == 'tstatic':
            ths = make_ths(storage, Tm[lo:hi], {'value': vm[lo:hi, None].copy()}, tag)
        else:
            ths = make_ths(storage, Tm[lo:hi], {'plaintext': ptm[lo:hi]}, tag)
        return scared.Container(ths)

    nm = len(Tm)
    with env.clock(env.SimClock()), env.memory(env.SimMemory()):
        numba.set_num_threads(scn.get('threads', 1))
        scared.set_batch_size(scn['build_rule'])
        att = _c14_attack(scn, scared, storage, Tb, vb)
        if scn['probe_before_build']:
            # matching before build is refused - probed on a separate object (continuing it is C16 territory)
            probe_att = _c14_attack(scn, scared, storage, Tb, vb, 'probe')
            try:
                probe_att.run(mk_container(0, nm, 'probe_match'))
                violation = viol('match_before_build_not_refused', ['C14', 'match_before_build_not_refused'] + sig_tail, 'run() before build() returned normally')
            except Exception:
                probes['refused_before_build'] = 1
        if violation is None and scn.get('build_fault') is not None:
            # fault during the building phase (storage read error on the k-th batch): build() must raise, and a build that did not complete is
            # not a build - matching is still refused.  Probed on a separate object.
            st_f = Storage()
            cnt = {'n': 0, 'fired': False, 'armed': False}

            def on_fetch(kind_, tag, ids, key):
                # batch k = the k-th metadata read of the run loop; the fault hits the samples read that follows it
                # (sample reads before the first batch are the container's trace-size probe)
                if kind_ == 'meta':
                    cnt['n'] += 1
                    if cnt['n'] == scn['build_fault'] + 1:
                        cnt['armed'] = True
                elif kind_ == 'samples' and cnt['armed']:
                    cnt['armed'] = False
                    cnt['fired'] = True
                    raise InjectedIOError('injected read error while building')
            st_f.on_fetch = on_fetch
            att_f = _c14_attack(scn, scared, st_f, Tb, vb, 'buildfault')
            try:
                att_f.build()
                raised = False
            except Exception:
                raised = True
            c14_faults['storage_read_error:build'] = [1, int(cnt['fired'])]
            if cnt['fired']:
                probes['build_fault_fired'] = 1
                st_f.on_fetch = None
                if not raised:
                    violation = viol('failed_build_not_reported', ['C14', 'failed_build_not_reported'] + sig_tail, 'storage error during build() but build() returned normally')
                else:
                    try:
                        att_f.run(mk_container(0, nm, 'after_failed_build'))
                        violation = viol('match_after_failed_build_not_refused', ['C14', 'match_after_failed_build_not_refused'] + sig_tail,
                                         'build() failed on batch %d, yet run() was accepted' % scn['build_fault'])
                    except Exception:
                        probes['refused_after_failed_build'] = 1
                        failed_sibling = att_f
        if violation is None:
            try:
                att.build()
            except Exception as e:
                violation = viol('build_raised', ['C14', 'build_raised'] + sig_tail + [type(e).__name__], 'build() raised %r' % (e,))
        if violation is None:
            hyp = np.stack([kinds.leak(classes, ptm[:, 0], g) for g in range(scn.get('tguess') or k)], 1) if kind == 'tdpa' else None
            mus, S, sc = c14_model(Tb, vb, classes, Tm, hyp)
            nzd = np.diag(S) != 0
            Sred = S[np.ix_(nzd, nzd)] if (nzd.any() and not nzd.all() and not S[~nzd].any() and not S[:, ~nzd].any()) else S
            kappa = float(np.linalg.cond(Sred))
            # forward bound of an inverse computed from a covariance that carries rounding of the requested precision: ~ cond * eps, with a margin
            illr = 64 * kappa * float(np.finfo(np.dtype(prec)).eps)
            ill = kappa > 1e3 and bool(scn.get('common')) and illr <= 0.1
            if ill:
                probes['ill_conditioned_judged'] = 1
            if kappa > 1e3 and not ill:
                # ill-conditioned pooled covariance: pinv is not comparable across roundings (precondition, DESIGN 4.3)
                return {'violation': None, 'inconclusive': True, 'digest': rng.digest(storage.events), 'case': 'illcond', 'nontrivial': False,
                        'faults': {}, 'probes': {'ill_conditioned_covariance': 1}, 'sim_time': storage.seq}
            popm = ~np.isnan(mus).any(axis=1)            # classes with at least one building trace: their template is defined
            if np.asarray(att.templates).shape != mus.shape or not compare.close(np.asarray(att.templates)[popm], mus[popm], tol, ttol):
                violation = viol('templates_differ_from_model', ['C14', 'templates_differ_from_model'] + sig_tail,
                                 'maxdiff=%s' % compare.maxdiff(np.asarray(att.templates)[popm] if np.asarray(att.templates).shape == mus.shape else att.templates, mus[popm]))
            elif not compare.close(att.pooled_covariance, S, tol, ctol):
                violation = viol('covariance_differs_from_model', ['C14', 'covariance_differs_from_model'] + sig_tail,
                                 'maxdiff=%s got=%s want=%s' % (compare.maxdiff(att.pooled_covariance, S), compare.describe(att.pooled_covariance), compare.describe(S)))
            elif hasattr(att, 'pooled_covariance_inv'):
                # the pseudo-inverse the matching phase uses (cond(S) <= 1e3 here): three digits looser, relative to the size of the inverse
                Pm = np.linalg.pinv(S)
                itol = tol * 1e3 if not ill else illr
                if not compare.close(att.pooled_covariance_inv, Pm, itol, itol * float(np.abs(Pm).max())):
                    violation = viol('covariance_inverse_differs_from_model', ['C14', 'covariance_inverse_differs_from_model'] + sig_tail,
                                     'maxdiff=%s' % compare.maxdiff(att.pooled_covariance_inv, Pm))
        if violation is None and failed_sibling is not None:
            # a NEW attack object created on the same building Container / selection function / model objects as the one whose build failed:
            # objects are independent, its profile must be that of the building set alone
            try:
                try:
                    failed_sibling.container_building, failed_sibling.model
                except AttributeError:
                    raise kinds.Unavailable('attack object does not expose container_building / model')
                sib = _c14_attack(scn, scared, storage, Tb, vb, like=failed_sibling)
                sib.build()
                probes['sibling_after_failed_build'] = 1
                if not (compare.close(np.asarray(sib.templates)[popm], mus[popm], tol, ttol) and compare.close(sib.pooled_covariance, S, tol, ctol)):
                    violation = viol('sibling_profile_differs_from_model', ['C14', 'sibling_profile_differs_from_model'] + sig_tail,
                                     'attack created on the container of a failed build: templates maxdiff=%s covariance maxdiff=%s' % (
                                         compare.maxdiff(np.asarray(sib.templates)[popm], mus[popm]), compare.maxdiff(sib.pooled_covariance, S)))
            except kinds.Unavailable:
                probes['sibling_unobservable'] = 1
            except Exception as e:
                violation = viol('build_raised', ['C14', 'build_raised'] + sig_tail + [type(e).__name__, 'sibling'], 'build() of a sibling attack raised %r' % (e,))
        if violation is None:
            # the same building set under another batch rule: templates / covariance bitwise (exact accumulators)
            scared.set_batch_size(scn['build_rule_2'])
            att2 = _c14_attack(scn, scared, storage, Tb, vb, 'build2')
            att2.build()
            if sc_ != 1:
                same_build = compare.close(att.templates, att2.templates, tol, ttol) and compare.close(att.pooled_covariance, att2.pooled_covariance, tol, ctol)
            else:
                same_build = compare.bitwise(att.templates, att2.templates) and compare.bitwise(att.pooled_covariance, att2.pooled_covariance)
            if not same_build:
                violation = viol('build_depends_on_batch_rule', ['C14', 'build_depends_on_batch_rule'] + sig_tail,
                                 'rules %s vs %s: templates maxdiff=%s covariance maxdiff=%s' % (scn['build_rule'], scn['build_rule_2'],
                                                                                            compare.maxdiff(att.templates, att2.templates),
                                                                                            compare.maxdiff(att.pooled_covariance, att2.pooled_covariance)))
        if violation is None and scn.get('build_twice'):
            # history: build() again on the same attack object.  The builder is a reverse analysis, so a second build accumulates (C02's clause);
            # a builder that starts afresh would also satisfy C14's statement - either definition is accepted, anything else is not
            try:
                att.build()
                musA, SA, scA = c14_model(np.concatenate([Tb, Tb]), np.concatenate([vb, vb]), classes, Tm, hyp)
                okA = compare.close(np.asarray(att.templates)[popm], musA[popm], tol, ttol) and compare.close(att.pooled_covariance, SA, tol, ctol)
                okB = compare.close(np.asarray(att.templates)[popm], mus[popm], tol, ttol) and compare.close(att.pooled_covariance, S, tol, ctol)
                probes['second_build'] = 1
                if okA:
                    mus, S, sc = musA, SA, scA
                elif not okB:
                    violation = viol('second_build_differs_from_model', ['C14', 'second_build_differs_from_model'] + sig_tail,
                                     'after a second build(): templates maxdiff vs accumulated model %s / vs fresh model %s; covariance %s / %s' % (
                                         compare.maxdiff(np.asarray(att.templates)[popm], musA[popm]), compare.maxdiff(np.asarray(att.templates)[popm], mus[popm]),
                                         compare.maxdiff(att.pooled_covariance, SA), compare.maxdiff(att.pooled_covariance, S)))
            except Exception as e:
                violation = viol('build_raised', ['C14', 'build_raised'] + sig_tail + [type(e).__name__, 'second'], 'second build() raised %r' % (e,))
        if violation is None:
            scared.set_batch_size(scn['match_rule'])
            cuts = [c for c in scn['match_cuts'] if 0 < c < nm]
            b = [0] + cuts + [nm]
            try:
                for j, (lo, hi) in enumerate(zip(b, b[1:])):
                    att.run(mk_container(lo, hi, 'match%d' % j))
                got = np.asarray(att.scores).ravel()
                stol = tol * 10
                if ill:
                    # the scores are 10 - (mean squared distance): the bound is relative to the size of the distances
                    stol = stol + illr * float(np.nanmax(np.abs(10 - sc))) if len(sc) else stol
                if not popm.all():
                    # a candidate whose template is undefined has no defined score: static attack - compare the populated classes only;
                    # DPA attack - hypotheses range over all classes, nothing to compare
                    probes['empty_declared_class'] = 1
                    if kind == 'tstatic' and got.shape == sc.shape:
                        got, sc = got[popm], sc[popm]
                    else:
                        got, sc = got[:0], sc[:0]
                if got.shape != sc.shape or not compare.close(got, sc, tol, stol):
                    violation = viol('scores_differ_from_model', ['C14', 'scores_differ_from_model'] + sig_tail,
                                     'got=%s want=%s' % (got[:6].tolist(), sc[:6].tolist()))
                elif len(sc):
                    best = int(np.argmax(sc))
                    lead = sc[best] - np.partition(sc, -2)[-2] if len(sc) > 1 else 1.0
                    if lead > 4 * stol * max(1.0, abs(sc[best])) and int(np.argmax(got)) != best:
                        violation = viol('best_candidate_differs', ['C14', 'best_candidate_differs'] + sig_tail, 'got argmax %d want %d' % (int(np.argmax(got)), best))
                    probes['runs_%d' % (len(b) - 1)] = 1
            except Exception as e:
                violation = viol('match_raised', ['C14', 'match_raised'] + sig_tail + [type(e).__name__], 'matching run raised %r' % (e,))
    case = rng.digest([kind, classes, scn['L'], prec, scn['build_rule'], scn['match_rule'], scn['match_cuts'], len(Tb), nm])
    return {'violation': violation, 'inconclusive': False, 'digest': rng.digest(storage.events), 'case': case, 'nontrivial': True,
            'faults': c14_faults, 'probes': probes, 'sim_time': storage.seq}


# ----------------------------------------------------------------------------- shrinking

def precondition(scn):
    if scn.get('template'):
        return len(scn['classes']) >= 2 and all(p >= 2 for p in scn['per_class']) and len(scn['per_class']) == len(scn['classes']) and scn['nm'] >= 1 \
            and sum(p - 1 for p in scn['per_class']) >= 2 * scn['L'] + 2 and scn['step'] >= 1 and 0 <= scn['key'] < len(scn['classes'])
    if scn['prop'] == 'C14':
        per = scn['per_class']
        return len(scn['classes']) >= 2 and sum(1 for p in per if p >= 2) >= 2 and len(per) == len(scn['classes']) and scn['nm'] >= 1 \
            and sum(p - 1 for p in per if p >= 2) >= 2 * scn['L'] + 2 \
            and 0 <= scn['key'] < len(scn['classes']) and (not scn['auto'] or (scn['classes'] == list(range(len(scn['classes']))) and per[-1] >= 1))
    if not scn['sets'] or any(n < 1 for n in scn['sets']):
        return False
    if scn['m'] < 2:
        return False
    try:
        sets = make_sets(scn)
        EE = np.concatenate([expected_matrix(scn, s) for s, p in sets])
    except Exception:
        return False
    if scn['kind'] == 'mia':
        return True
    y = 8.0
    prec = np.dtype(scn['precision'])
    lim = (1 << 24) if prec.itemsize == 4 else (1 << 53)
    x = float(np.abs(EE.astype('float64')).max())
    return EE.shape[0] * max(x * x, x * y, y * y) < lim


def candidates(scn):
    if scn['prop'] == 'C14' or scn.get('template'):
        for c in _cands_c14(scn):
            if scn.get('template'):
                c['match_cuts'] = [x for x in c['match_cuts'] if x < c['nm']]
            yield c
        if scn.get('template') and scn['step'] > 1:
            c = copy.deepcopy(scn)
            c['step'] = max(1, scn['step'] // 2)
            yield c
        return
    if len(scn['sets']) > 1:
        for j in range(len(scn['sets'])):
            c = copy.deepcopy(scn)
            del c['sets'][j]
            yield c
    for j, n in enumerate(scn['sets']):
        for nn in sorted(set([1, 2, n // 2, n - 1])):
            if 1 <= nn < n:
                c = copy.deepcopy(scn)
                c['sets'][j] = nn
                yield c
    for key, val in (('frame', None), ('chain', []), ('words', None), ('tdtype', 'uint8'), ('amp', 3), ('classes', list(range(9)))):
        if scn.get(key) != val and not (key == 'classes' and scn['kind'] not in ('anova', 'nicv', 'snr', 'mia')):
            c = copy.deepcopy(scn)
            c[key] = val
            yield c
    if not isinstance(scn['rule'], int):
        for b in (1, 2, 3, 10):
            c = copy.deepcopy(scn)
            c['rule'] = b
            yield c
    elif scn['rule'] > 1:
        for b in sorted(set([1, 2, scn['rule'] // 2])):
            if b < scn['rule']:
                c = copy.deepcopy(scn)
                c['rule'] = b
                yield c
    if scn.get('step') and scn['step'] > 1:
        for s in sorted(set([1, 2, scn['step'] // 2])):
            if s < scn['step']:
                c = copy.deepcopy(scn)
                c['step'] = s
                yield c
    if scn['nguess'] > 2:
        c = copy.deepcopy(scn)
        c['nguess'] = 2
        yield c


def _cands_c14(scn):
    if scn['nm'] > 1:
        for n in sorted(set([1, scn['nm'] // 2])):
            c = copy.deepcopy(scn)
            c['nm'] = n
            yield c
    if scn['L'] > 1:
        c = copy.deepcopy(scn)
        c['L'] = 1
        yield c
    if len(scn['classes']) > 2 and not scn['auto']:
        c = copy.deepcopy(scn)
        c['classes'] = c['classes'][:-1]
        c['per_class'] = c['per_class'][:-1]
        c['key'] = min(c['key'], len(c['classes']) - 1)
        yield c
    if any(p > 2 for p in scn['per_class']):
        c = copy.deepcopy(scn)
        c['per_class'] = [2] * len(c['per_class'])
        yield c
    for key, val in (('match_cuts', []), ('probe_before_build', False), ('build_rule', 1000), ('build_rule_2', 1000), ('match_rule', 1000),
                     ('threads', 1), ('tdtype', 'float32'), ('key', 0), ('vdtype', 'uint8'), ('build_twice', False), ('build_fault', None), ('scale', 1), ('zero_col', None)):
        if scn.get(key) != val:
            c = copy.deepcopy(scn)
            c[key] = val
            yield c


def summary(scn):
    if scn.get('template'):
        return {k: scn[k] for k in ('kind', 'style', 'classes', 'L', 'precision', 'tdtype', 'nm', 'match_rule', 'match_cuts', 'step')}
    if scn['prop'] == 'C14':
        return {k: scn[k] for k in ('kind', 'style', 'classes', 'L', 'precision', 'tdtype', 'per_class', 'nm', 'build_rule', 'match_rule', 'match_cuts', 'probe_before_build')}
    s = {k: scn[k] for k in ('kind', 'mode', 'sets', 'rule', 'frame', 'chain', 'words', 'precision', 'tdtype', 'classes', 'step', 'discriminant') if k in scn}
    if scn.get('fault'):
        s['fault'] = scn['fault']
    return s
