"""E1 - accumulator machine (single threaded): C01, C11, C16 (history level).

System under test: one real distinguisher object driven through update/compute histories,
under a scripted CPU clock (kernel schedule), a scripted memory gate, changing numba worker
counts and injected refused calls.  Oracles compare scared with scared (twin executions).
"""
import copy

import numpy as np

from .. import compare, env, kinds, rng

NMAX, MMAX, WMAX = 1024, 64, 24

CLASS_POOL = [
    list(range(9)), [8, 3, 5, 1], [2, 4, 6], [7, 0, 3, 9, 1], list(range(4)), list(range(12)),
    [0, 1], [1, 2, 3, 4], [3, 1, 2, 0], [0, 300, 7], list(range(2, 11)), [0, 2, 1, 3], [0, 3, 1, 2, 4],
]
BAD_KINDS = ['rows', 'length', 'words', 'type_traces', 'type_data', 'float_data', 'first_range', 'neg_auto',
             'lowmem', 'not_built', 'tpl_two_words', 'traces_1d', 'f16_traces', 'traces_3d', 'str_traces']


RULE = {
    'C01': 'seeded histories: (kind, precision, trace dtype over its full range, data dtype, memory layout C/F/strided, regime, word layout incl. 17-300 and 4096 words, class list incl. 131-256 classes, traces of 1-35 or 257-700 samples, a few NaN cells in the float regime, caller-recycled batch buffer) x ordered partition of up to 1000 (a few: 3000) rows into batches x '
           'compute()/compute-twice positions x clock script x worker-count changes; a case is non-trivial when it has >= 2 accepted '
           'batches; distinct = distinct (kind, precision, dtype, regime, op-kind sequence with batch lengths)',
    'C11': 'one seeded history executed under 4-8 environments (scripted process_time => kernel schedule; worker-count sequence); '
           'non-trivial when the environments really differ (>= 2 distinct executed kernel sequences or worker sequences); '
           'distinct = distinct (kind, precision, dtype, regime, set of executed kernel sequences, batch lengths)',
    'C16': 'C01 histories with 1-3 refused update() calls inserted at any position incl. first (15 refusal kinds incl. low memory, 1-D / 3-D traces, float16 traces refused inside the compiled kernel, samples that cannot be converted to numbers, decoy range / decoy trace length / decoy word layout of a refused first batch, MIA with automatic bin edges); '
           'non-trivial when a refusal fired or >= 2 batches; distinct = distinct (kind, precision, dtype, regime, op sequence, refusal kinds)',
}
SIM_TIME_UNIT = {'C01': 'simulated CPU seconds (scripted process_time)', 'C11': 'simulated CPU seconds (scripted process_time)',
                 'C16': 'simulated CPU seconds (scripted process_time)'}
ASSUMPTIONS = {
    'C01': ['twin oracle: the one-batch answer of the same class is taken as the reference (the formula itself is C03/C04/C13, not claimed)',
            'exact regime: integer-valued traces sized so every accumulator stays below 2^24 (float32) / 2^53 (float64) => bitwise comparison',
            'float regime only on well-conditioned data (>= 16 rows before a compute, balanced classes), tolerance 1e-9 (f64) / 1e-2 (f32)',
            'automatic class sets only when the first batch already contains the maximum; MIA with explicit bin edges (undeclared values are treated by the twin in the same way)',
            'a numba kernel call is one atomic step'],
    'C11': ['every kernel sequence the code can produce under some clock is producible by scripting durations; sequences starting with kernel 2 are unreachable in the code',
            'worker counts 1..16 via numba.set_num_threads; scheduling inside a kernel is not controlled',
            'float regime only where the comparison is well-conditioned (offsets only at float64 precision)'],
    'C16': ['a call that does not raise is outside the property: such runs are counted as inconclusive',
            'twin = fresh object that received only the accepted calls, in the same order',
            'an over-long trace batch is never sent to the t-test accumulator (it has no such refusal path; its kernel would write out of bounds)'],
}


# ----------------------------------------------------------------------------- data

def table_rows(scn):
    return max(NMAX, int(scn.get('nmax', 256)))


def tables(scn):
    # the three tables are drawn one after the other from one generator, so their content depends on the number of rows drawn: a scenario
    # records it ('nmax'; replay files written before the tables grew to 1024 rows have none and mean 256)
    n = int(scn.get('nmax', 256))
    g = rng.np_stream(scn['table_seed'], 'data')
    mm = int(scn.get('mmax', MMAX))          # recorded like 'nmax' (scenarios with traces of several hundred samples)
    raw_t = g.integers(0, 1 << 16, (n, mm))
    raw_f = g.standard_normal((n, mm))
    raw_d = g.integers(0, 1 << 16, (n, WMAX))
    if n < NMAX:
        pad = NMAX - n      # (nmax > NMAX: the tables simply have more rows)
        raw_t = np.concatenate([raw_t, np.zeros((pad, mm), raw_t.dtype)])
        raw_f = np.concatenate([raw_f, np.zeros((pad, mm))])
        raw_d = np.concatenate([raw_d, np.zeros((pad, WMAX), raw_d.dtype)])
    return raw_t, raw_f, raw_d


def first_accepted_row(scn):
    for op in scn['ops']:
        if op[0] == 'u':
            return op[1]
    return 0


def make_data(scn):
    """(traces (NMAX', m), data (NMAX', *wshape)) - rows are addressed by the ops' ranges."""
    raw_t, raw_f, raw_d = tables(scn)
    m = scn['m']
    NR = table_rows(scn)
    td = np.dtype(scn['tdtype'])
    if scn['regime'] == 'exact':
        amp = scn['amp']
        v = raw_t[:, :m] % (amp + 1)
        if td.kind != 'u':
            v = v - amp // 2
        v = v + scn.get('offset', 0)
        traces = v.astype(td)
    else:
        traces = (raw_f[:, :m] * scn.get('sigma', 1.0) + scn.get('offset', 0)).astype(td)
        for r_, c_, v_ in scn.get('nonfinite') or ():
            # a few cells that are not finite (a preprocess that divided by zero, an acquisition glitch): the samples they sit in have no defined
            # statistic whatever the split; the other samples must not notice
            traces[r_, c_ % m] = {'nan': np.nan, 'inf': np.inf, 'ninf': -np.inf}[v_]
    W = int(np.prod(scn['wshape']))
    pool = np.asarray(scn['pool'])
    if W > WMAX:
        # the standard attack layout (guesses x bytes, thousands of data words): own table, rows limited to what the history uses
        nrows = max(o[2] for o in scn['ops'] if o[0] == 'u')
        gd = rng.np_stream(scn['table_seed'], 'bigwords')
        d = np.zeros((NR, W), dtype=pool.dtype)
        d[:nrows] = pool[gd.integers(0, len(pool), (nrows, W))]
    elif scn['regime'] == 'exact':
        d = pool[raw_d[:, :W] % len(pool)]
    else:
        i = np.arange(NR)[:, None] + np.arange(W)[None, :]
        d = pool[i % len(pool)]
    ddt = scn.get('ddtype') or ('uint8' if pool.max() <= 255 and pool.min() >= 0 else 'uint16')
    d = d.astype(ddt)
    if scn.get('classes') is None and scn['kind'] in kinds.CLASS_BASED:
        d[first_accepted_row(scn), :] = pool.max()
    data = d.reshape((NR,) + tuple(scn['wshape']))
    return relayout(traces, scn.get('tlayout', 'C')), relayout(data, scn.get('dlayout', 'C'))


def relayout(a, layout):
    """Same values, another memory layout: C-contiguous, Fortran-contiguous, or a strided view of a wider buffer."""
    if layout == 'F':
        return np.asfortranarray(a)
    if layout == 'strided' and a.ndim == 2:
        w = np.zeros((a.shape[0], 2 * a.shape[1]), dtype=a.dtype)
        w[:, ::2] = a
        return w[:, ::2]
    return np.ascontiguousarray(a)


def exact_ok(scn):
    """All accumulated quantities are integers below 2^24 (float32) / 2^53 (float64)."""
    if scn['regime'] != 'exact':
        return True
    rows = sum(op[2] - op[1] for op in scn['ops'] if op[0] == 'u')
    amax = scn['amp'] + abs(scn.get('offset', 0))
    ymax = max(abs(int(x)) for x in scn['pool'])
    if scn['kind'] in ('cpa', 'cpaalt', 'dpa'):
        big = rows * max(amax * amax, amax * ymax, ymax * ymax, 1)
    else:
        big = rows * max(amax * amax, 1)
    prec = np.dtype(scn['precision'])
    lim = (1 << 24) if (prec.kind == 'f' and prec.itemsize == 4) else (1 << 53)
    if scn['kind'] == 'mia':
        lim = 1 << 24 if prec.itemsize == 4 and prec.kind == 'f' else 1 << 31
        big = rows
    return big < lim


# ----------------------------------------------------------------------------- generation

def _weighted(r, items):
    tot = sum(w for _, w in items)
    x = r.random() * tot
    for v, w in items:
        x -= w
        if x < 0:
            return v
    return items[-1][0]


def _partition(r, n, maxb=12):
    shape = r.choice(['singletons', 'one_rest', 'rest_one', 'uniform', 'random', 'random', 'one'])
    if shape == 'singletons' and n <= maxb:
        cuts = list(range(1, n))
    elif shape == 'one_rest' and n >= 2:
        cuts = [1]
    elif shape == 'rest_one' and n >= 2:
        cuts = [n - 1]
    elif shape == 'uniform' and n >= 2:
        b = r.randint(1, max(1, n - 1))
        cuts = list(range(b, n, b))[:maxb - 1]
    elif shape == 'one':
        cuts = []
    else:
        k = r.randint(0, min(maxb - 1, n - 1))
        cuts = sorted(r.sample(range(1, n), k)) if k else []
    bounds = [0] + cuts + [n]
    return [(a, b) for a, b in zip(bounds, bounds[1:])], shape


def gen_history(seed, tier, prop, kinds_allowed):
    r = rng.stream(seed, 'workload')
    kn = rng.stream(seed, 'knobs')
    thorough = tier == 'thorough'
    kind = _weighted(r, kinds_allowed)
    precision = r.choice(['float32', 'float64'])
    numba_kind = kind in ('anova', 'nicv', 'snr', 'mia', 'tbuild', 'ttacc')
    regime = 'exact' if r.random() < 0.8 else 'float'
    if kind == 'mia':
        regime = 'exact' if r.random() < 0.7 else 'float'
    if regime == 'exact':
        dts = ['uint8', 'float32', 'int16']
        if thorough or not numba_kind:
            dts += ['int8', 'float64']
        tdtype = r.choice(dts)
    else:
        tdtype = r.choice(['float32', 'float64'] if (thorough or not numba_kind) else ['float32'])
    scn = {'prop': prop, 'engine': 'accum', 'seed': seed, 'kind': kind, 'precision': precision, 'tdtype': tdtype,
           'regime': regime, 'table_seed': rng.H(seed, 'table'), 'offset': 0, 'nmax': NMAX}
    # sizes
    if regime == 'exact':
        n = _weighted(r, [(r.randint(2, 12), 3), (r.randint(13, 64), 4), (r.randint(65, 256 if thorough else 128), 1),
                          (r.randint(300, 1000), 0.5 if numba_kind else 4.0)])   # batches of several hundred rows: counters / sums kept in a narrow integer type wrap
    else:
        n = r.randint(24, 96)
    hs = rng.stream(seed, 'huge')
    if regime == 'exact' and hs.random() < (0.015 if numba_kind else 0.06):
        # more rows than any block size a buffered implementation is likely to use (512 / 1024 / 2048)
        n = hs.randint(1025, 3000)
        scn['nmax'] = 4096
    wide = thorough and kind in ('anova', 'nicv', 'snr', 'mia', 'ttacc') and r.random() < 0.05
    m = 64 if wide else _weighted(r, [(1, 1), (r.randint(2, 4), 4), (r.randint(5, 8), 2)])
    if not wide and numba_kind and kind != 'tbuild' and rng.stream(seed, 'mwide').random() < 0.07:
        m = rng.stream(seed, 'mwide2').randint(17, 35)     # more samples than worker threads: prange chunks hold several iterations
    lt = rng.stream(seed, 'longtrace')
    if kind not in ('tbuild', 'tstatic', 'tdpa') and regime == 'exact' and lt.random() < (0.06 if prop == 'C11' else 0.025):
        # traces of several hundred samples: a kernel that walks the sample axis in blocks (256, 512) takes more than one block
        m = lt.randint(257, 700)
        n = min(n, lt.randint(40, 200))
        scn['mmax'] = 1024
    # amplitudes up to the full range of the storage dtype: arithmetic done in the narrow trace dtype (a wrapped square, a truncated
    # sum) only shows on large sample values; exact_ok() below lowers the amplitude again where the sums would stop being exact
    xd = rng.stream(seed, 'xdtype')
    if regime == 'exact' and not numba_kind and xd.random() < 0.12:
        tdtype = scn['tdtype'] = xd.choice(['uint16', 'int32', 'int64', 'uint32'])     # wider integer acquisitions (numpy-backed kinds: no extra compile)
    full = {'uint8': 255, 'int8': 254, 'int16': 4094, 'float32': 1023, 'float64': 4095, 'uint16': 4095, 'int32': 4094, 'int64': 4094, 'uint32': 4095}[tdtype]
    scn['amp'] = r.choice([1, 3, 15, 16, full, full]) if regime == 'exact' else 0
    if tdtype == 'int8' and scn['amp'] == 16:
        scn['amp'] = 15
    if regime == 'exact' and precision == 'float64' and tdtype in ('int16', 'float64', 'float32') and r.random() < 0.2:
        scn['offset'] = r.choice([1000, -1000, 4096])      # integer offset, float64 precision only (DESIGN 3)
    # word layout
    if kind in kinds.ONE_WORD:
        wshape = [1]
    elif kind == 'ttacc':
        wshape = [1]
    else:
        wshape = _weighted(r, [([r.randint(1, 4)], 6), ([r.randint(1, 3), r.randint(1, 3)], 2),
                               ([2, r.randint(1, 2), 2], 1 if thorough else 0.3), ([16], 0.4), ([4, 4], 0.4)])     # incl. a 16-byte cipher state
    ww = rng.stream(seed, 'wwide')
    if kind in ('cpa', 'cpaalt', 'dpa') and regime == 'exact' and ww.random() < 0.06:
        wshape = [ww.randint(17, 300)]       # tens to hundreds of data words (between the small layouts and the 4096-word attack layout)
    if kind in kinds.PARTITIONED and regime == 'exact' and rng.stream(seed, 'attacklayout').random() < (0.12 if prop == 'C11' else 0.03):
        # 256 guesses x 16 bytes: the mask of the matmul kernel has rows x words x classes entries (millions for a batch of a few hundred rows)
        wshape = rng.stream(seed, 'attacklayout2').choice([[256, 16], [256, 16], [128, 16], [64, 16]])
        n = rng.stream(seed, 'attacklayout3').randint(150, 420)
        m = min(m, 3)
        scn['attack_layout'] = True
    scn['wshape'] = wshape
    # classes / data values
    scn['classes'] = None
    if kind in ('cpa', 'cpaalt'):
        scn['pool'] = r.choice([list(range(9)), list(range(256)), [0, 1], list(range(17))])
    elif kind == 'dpa':
        scn['pool'] = [0, 1]
    elif kind in kinds.CLASS_BASED:
        auto = regime == 'exact' and r.random() < (0.4 if prop == 'C16' else 0.25) and not scn.get('attack_layout')
        if auto:
            # C16: mostly class sets of the 64 bucket, so that a 9-class set left behind by a refused first call would be too small
            top = r.choice(([8, 63, 40, 63, 20] if prop == 'C16' else [8, 8, 5, 63, 40]) + ([255, 100] if thorough else []))
            bc = rng.stream(seed, 'bigclasses')
            if bc.random() < 0.2:
                top = bc.choice([255, 130, 200])        # class indexes that do not fit a signed byte / the 256-class set of a byte value
            scn['pool'] = list(range(top + 1))
        else:
            cl = r.choice(CLASS_POOL) if not scn.get('attack_layout') else list(range(9))
            if not scn.get('attack_layout') and regime == 'exact' and rng.stream(seed, 'bigclasses2').random() < 0.08:
                cl = list(range(256))
            scn['classes'] = cl
            if kind == 'mia' and r.random() < 0.6:
                scn['pool'] = list(cl)              # MIA: mostly declared values only (what an undeclared value does there is C12's question;
                #                                     the twin treats it the same way, so split invariance is still decided soundly)
            elif regime == 'float':
                scn['pool'] = list(cl)[:3]
            else:
                undeclared = [v for v in (0, 1, 2, 5, 9, 11, 77) if v not in cl][:2]
                scn['pool'] = list(cl) + (undeclared if r.random() < 0.5 else [])
        if kind == 'tbuild' and regime == 'float':
            scn['pool'] = list(scn['pool'])[:3]
    elif kind in ('tstatic', 'tdpa'):
        k = r.randint(2, 5)
        cl = r.choice([list(range(k)), list(range(k)), [c + 2 for c in range(k)], list(range(k))[::-1], [3 * c + 1 for c in range(k)],
                       [0] + list(range(1, k - 1))[::-1] + [k - 1]])
        m = r.randint(1, 5)
        scn['build'] = {'classes': cl, 'L': m, 'seed': rng.H(seed, 'build'), 'per_class': r.randint(3, 8),
                        'dtype': 'float32'}
        scn['classes'] = cl
        scn['pool'] = cl
        if kind == 'tdpa':
            scn['wshape'] = [k]
    elif kind == 'ttacc':
        scn['pool'] = [0]
    if kind == 'mia':
        if regime == 'exact':
            scn['mia'] = {'lo': r.choice([0, -2, 1]), 'hi': r.choice([16, 15, 12, 8]), 'bins': r.choice([2, 4, 5, 8])}
        else:
            scn['mia'] = {'lo': -2, 'hi': 2, 'bins': r.choice([4, 7])}
        scn['mia_precision'] = r.choice([None, None, 'float64'])
        if prop == 'C16' and rng.stream(seed, 'miaauto').random() < 0.3:
            scn['mia']['auto_edges'] = True
    scn['m'] = m
    # storage dtype of the intermediate values (selection functions / models return various integer widths; CPA also takes floats)
    dd = rng.stream(seed, 'ddtype')
    pmax, pmin = max(scn['pool']), min(scn['pool'])
    if kind in ('cpa', 'cpaalt'):
        scn['ddtype'] = dd.choice([None, None, 'uint16', 'int32', 'int64', 'float32', 'float64'])
    elif kind in kinds.CLASS_BASED or kind in ('tstatic', 'tdpa'):
        opts = [None, None, None, 'uint16', 'uint32', 'int16', 'int32'] + (['int8'] if pmax <= 127 else [])
        scn['ddtype'] = dd.choice(opts)
    # memory layout of the arrays handed to update(): row slices of a Fortran-ordered or strided base array are non-contiguous, a one-batch
    # array is F-contiguous - code that flattens / views by layout ('A'/'K' order, ravel, frombuffer) depends on the split then.
    # numba-backed kinds compile one more signature per layout, so they only get them in the thorough tier (except >= 3-D data, which
    # base.update reshapes into a fresh C array before any kernel sees it).
    lay = rng.stream(seed, 'layout')
    u1, u2 = lay.random(), lay.random()
    if not numba_kind or thorough:
        p = 0.2 if not numba_kind else 0.04
        if u1 < p:
            scn['tlayout'] = 'F' if u1 < p / 2 else 'strided'
    if len(scn['wshape']) >= 2 or not numba_kind or thorough:
        p = 0.25 if (len(scn['wshape']) >= 2 or not numba_kind) else 0.04
        if u2 < p and kind not in ('ttacc',):
            scn['dlayout'] = 'F'
    # keep the exact regime exact: lower amplitude / rows until the bound holds
    batches, shape = _partition(r, n)
    scn['ops'] = [['u', a, b] for a, b in batches]
    while not exact_ok(scn):
        if scn['amp'] > 1:
            scn['amp'] //= 2
        elif scn.get('offset'):
            scn['offset'] = 0
        elif max(abs(x) for x in scn['pool']) > 16 and kind in ('cpa', 'cpaalt'):
            scn['pool'] = list(range(9))
        else:
            n = max(2, n // 2)
            batches, shape = _partition(r, n)
            scn['ops'] = [['u', a, b] for a, b in batches]
    scn['split_shape'] = shape
    nf = rng.stream(seed, 'nonfinite')
    if regime == 'float' and m >= 2 and nf.random() < 0.25 and kind in ('cpa', 'cpaalt', 'dpa', 'anova', 'nicv', 'snr'):
        rows = sorted(set(x for a_, b_ in batches for x in range(a_, b_)))
        # NaN only: a NaN cell makes its sample NaN through the plain sums whatever the split.  An infinite cell does not have that property
        # (0 * inf inside a matrix product is NaN or skipped depending on the shape BLAS is handed: -inf for one split, NaN for another, both
        # equally meaningless) - no statistic of such a sample is defined, so none is demanded
        scn['nonfinite'] = [[nf.choice(rows), nf.randrange(m), nf.choice(['nan', 'nan', 'nan', 'nan'])] for _ in range(nf.choice([1, 1, 2, 4]))]
    if rng.stream(seed, 'recycle').random() < 0.15:
        scn['recycle'] = True
    # knobs: clock script and worker counts (always under a simulated clock)
    nb = len(batches)
    scn['clock'] = gen_clock(kn, nb)
    return scn, r, kn


def gen_clock(kn, nb):
    model = kn.choice(['steady', 'k1_cheap', 'k2_cheap', 'tie', 'alternate', 'jit_spike', 'zero', 'jump_back', 'random'])
    if model == 'steady':
        d = []
    elif model == 'k1_cheap':
        d = [0.5, 2.0] + [0.5] * nb
    elif model == 'k2_cheap':
        d = [2.0, 0.5] + [0.5] * nb
    elif model == 'tie':
        d = [1.0] * (nb + 2)
    elif model == 'alternate':
        d = [1.0, 2.0] + [3.0 + i for i in range(nb)]
    elif model == 'jit_spike':
        d = [0.3, 7.5] + [0.3] * nb
    elif model == 'zero':
        d = [0.0] * (nb + 2)
    elif model == 'jump_back':
        d = [kn.choice([0.5, 1.0, -3.0]) for _ in range(nb + 2)]
        d[kn.randrange(len(d))] = -3.0
    else:
        d = [kn.choice([0.0, 0.5, 1.0, 2.0, 7.5]) for _ in range(nb + 2)]
    return {'model': model, 'durs': d}


def add_threads(ops, kn, p=0.3):
    out = []
    for op in ops:
        if op[0] == 'u' and kn.random() < p:
            out.append(['t', kn.choice([1, 1, 2, 2, 3, 4, 7, 16, 16])])
        out.append(op)
    return out


def add_computes(ops, r, regime):
    out = []
    rows = 0
    nu = sum(1 for o in ops if o[0] == 'u')
    style = r.choice(['none', 'some', 'some', 'all', 'before_last', 'between_2_3'])
    iu = 0
    for op in ops:
        out.append(op)
        if op[0] != 'u':
            continue
        iu += 1
        rows += op[2] - op[1]
        if iu == nu:
            break
        if regime == 'float' and rows < 16:
            continue
        want = (style == 'all' or (style == 'some' and r.random() < 0.4)
                or (style == 'before_last' and iu == nu - 1) or (style == 'between_2_3' and iu == 2))
        if want:
            out.append(['cc'] if r.random() < 0.4 else ['c'])
    out.append(['cc'] if r.random() < 0.3 else ['c'])
    return out


KINDS_C01 = [('cpa', 2), ('cpaalt', 1.5), ('dpa', 1.5), ('anova', 2), ('nicv', 1.5), ('snr', 1.5), ('mia', 2),
             ('tbuild', 2), ('tstatic', 1), ('tdpa', 1), ('ttacc', 1)]
KINDS_C11 = [('anova', 3), ('nicv', 3), ('snr', 3), ('tbuild', 4), ('mia', 1.5), ('ttacc', 1)]
KINDS_C16 = KINDS_C01


def generate(prop, seed, tier):
    if prop == 'C01':
        scn, r, kn = gen_history(seed, tier, prop, KINDS_C01)
        scn['ops'] = add_threads(add_computes(scn['ops'], r, scn['regime']), kn)
        return scn
    if prop == 'C11':
        return generate_c11(seed, tier)
    if prop == 'C16':
        return generate_c16(seed, tier)
    raise KeyError(prop)


def generate_c11(seed, tier):
    scn, r, kn = gen_history(seed, tier, 'C11', KINDS_C11)
    thorough = tier == 'thorough'
    # C11-specific input classes: float32 traces at float64 precision, with/without offset
    f = r.random()
    kind = scn['kind']
    if scn['regime'] == 'float' or (f < 0.25 and kind != 'mia'):
        scn['regime'] = 'float'
        scn['tdtype'] = 'float32' if (r.random() < 0.7 or not thorough) else 'float64'
        if scn['tdtype'] == 'float32' and r.random() < 0.7:
            scn['precision'] = 'float64'
        scn['amp'] = 0
        # offset only where the comparison stays well-conditioned: float64 precision
        scn['offset'] = r.choice([0, 0, 3, 100, 1000]) if scn['precision'] == 'float64' else 0
        if kind in kinds.CLASS_BASED and kind != 'mia':
            if scn['classes'] is None:
                scn['classes'] = r.choice(CLASS_POOL)
            scn['pool'] = list(scn['classes'])[:3]
        n = r.randint(24, 96)
        batches, shape = _partition(r, n, maxb=8)
        scn['ops'] = [['u', a, b] for a, b in batches]
        if kind == 'mia':
            scn['mia'] = {'lo': -2 + scn['offset'], 'hi': 2 + scn['offset'], 'bins': 4}
    nr = rng.stream(seed, 'narrowint')
    if scn['regime'] == 'exact' and kind != 'mia' and nr.random() < 0.25:
        # C11 input class: integer traces much narrower than the requested precision, with values large enough that a kernel working in
        # a narrower float than requested (or in the trace dtype) is no longer exact: int16 near full range / uint8 at 255, float64 precision
        scn['precision'] = 'float64'
        scn['tdtype'] = nr.choice(['int16', 'int16', 'uint8'])
        scn['amp'] = {'int16': 4094, 'uint8': 255}[scn['tdtype']]
        scn['offset'] = nr.choice([0, 0, 4096, 20000]) if scn['tdtype'] == 'int16' else 0
    if scn.get('attack_layout') and scn['regime'] == 'exact':
        # three or four batches of 120-160 rows each: the kernel that handles the later ones differs between the environments
        al = rng.stream(seed, 'attacklayout4')
        cuts, a = [], 0
        for _ in range(al.choice([3, 3, 4])):
            b = a + al.randint(120, 160)
            cuts.append(['u', a, b])
            a = b
        scn['ops'] = cuts
    ups = [o for o in scn['ops'] if o[0] == 'u'][:8]
    scn['ops'] = ups
    # environments = kernel schedules x worker-count sequences
    nenv = r.randint(4, 8) if thorough else 4
    nb = len(ups)
    envs = []
    for e in range(nenv):
        ek = rng.stream(seed, 'env%d' % e)
        clock = gen_clock(ek, nb)
        tmode = ek.choice(['one', 'sixteen', 'changing', 'changing', 'two'])
        if tmode == 'one':
            th = [1] * nb
        elif tmode == 'sixteen':
            th = [16] * nb
        elif tmode == 'two':
            th = [2] * nb
        else:
            th = [ek.choice([1, 1, 2, 2, 16, 16, 3, 4, 5, 8, 11, 13]) for _ in range(nb)]
        envs.append({'clock': clock, 'threads': th})
    scn['envs'] = envs
    scn.pop('clock', None)
    return scn


def bad_applicable(bk, kind, first, auto):
    if bk in ('rows', 'type_traces', 'type_data'):
        return True
    if bk in ('traces_1d', 'traces_3d', 'str_traces'):
        return kind != 'ttacc'
    if bk == 'f16_traces':
        # half-precision traces pass every Python-level check and are refused inside the compiled kernel call (numba has no float16 arrays)
        return kind in ('anova', 'nicv', 'snr', 'mia', 'tbuild')
    if bk == 'length':
        # as a very first call a different length is simply a valid call (nothing to differ from),
        # except for template matching where the building phase fixed the length
        return (not first) or kind in ('tstatic', 'tdpa')
    if bk == 'words':
        return (not first) and kind not in ('ttacc', 'tstatic')      # the static template attack takes any word count (dimension fixed by the classes)
    if bk == 'float_data':
        return kind in ('dpa', 'anova', 'nicv', 'snr', 'mia', 'tbuild')
    if bk == 'first_range':
        return first and (kind == 'dpa' or (auto and kind in kinds.CLASS_BASED))
    if bk == 'neg_auto':
        return first and auto and kind in kinds.CLASS_BASED
    if bk == 'lowmem':
        return first and kind not in ('ttacc',)
    if bk == 'not_built':
        return first and kind in ('tstatic', 'tdpa')
    if bk == 'tpl_two_words':
        return kind == 'tbuild'
    return False


def generate_c16(seed, tier):
    scn, r, kn = gen_history(seed, tier, 'C16', KINDS_C16)
    fr = rng.stream(seed, 'faults')
    kind = scn['kind']
    auto = scn['classes'] is None and kind in kinds.CLASS_BASED
    ups = scn['ops'][:10]
    ops = add_computes(ups, r, scn['regime'])
    nbad = fr.choice([1, 1, 2, 3])
    for _ in range(nbad):
        # position among ops (0 = before everything = refused first call)
        pos = 0 if fr.random() < 0.35 else fr.randint(0, len(ops) - 1)
        first = not any(o[0] == 'u' for o in ops[:pos])
        cands = [bk for bk in BAD_KINDS if bad_applicable(bk, kind, first, auto)]
        if kind == 'ttacc':
            # a longer trace is not refused by the accumulator (the kernel would write out of bounds): never sent
            cands = ['type_traces']
        bk = fr.choice(cands)
        a = fr.randint(0, 40)
        op = ['bad', bk, a, a + fr.randint(2, 6)]
        if first and auto and fr.random() < 0.5:
            # decoy range: the refused first batch only carries small values, so a class set (or anything else) derived from it
            # and left behind would be too small for the batches accepted later
            op.append('low')
        elif first and kind not in ('tstatic', 'tdpa', 'ttacc') and fr.random() < 0.35:
            # decoy geometry: the refused first batch has another trace length than the batches accepted later (nothing was accepted yet, so
            # the first accepted batch is free to define the length)
            # ... and / or another layout of the intermediate values (words): (n, 4) <-> (n, 2, 2), twice the words, ...
            op.append('geom' if kind in kinds.ONE_WORD else fr.choice(['geom', 'geomw', 'geomtw']))
        ops.insert(pos, op)
    if kind in ('tstatic', 'tdpa'):
        # object starts unbuilt when a not_built probe is first; 'build' op follows it
        if any(o[0] == 'bad' and o[1] == 'not_built' for o in ops):
            i = max(j for j, o in enumerate(ops) if o[0] == 'bad' and o[1] == 'not_built')
            firstu = min(j for j, o in enumerate(ops) if o[0] == 'u')
            # move all not_built probes to the front, then build
            nbp = [o for o in ops if o[0] == 'bad' and o[1] == 'not_built']
            rest = [o for o in ops if not (o[0] == 'bad' and o[1] == 'not_built')]
            ops = nbp + [['build']] + rest
            scn['start_unbuilt'] = True
    scn['ops'] = add_threads(ops, kn, p=0.15)
    return scn


# ----------------------------------------------------------------------------- execution

def precondition(scn):
    ups = [o for o in scn['ops'] if o[0] == 'u']
    if not ups:
        return False
    if any(o[2] <= o[1] or o[2] > table_rows(scn) for o in ups):
        return False
    if scn['m'] < 1 or not exact_ok(scn):
        return False
    if scn['regime'] == 'float':
        # float regime needs the well-conditioned prefixes of DESIGN 4 (C01): >= 16 rows before any compute
        rows = 0
        for o in scn['ops']:
            if o[0] == 'u':
                rows += o[2] - o[1]
            if o[0] in ('c', 'cc') and rows < 16:
                return False
        if rows < 16:
            return False
    if scn.get('start_unbuilt'):
        if not any(o[0] == 'build' for o in scn['ops']):
            return False
        ib = [i for i, o in enumerate(scn['ops']) if o[0] == 'build'][0]
        if any(o[0] in ('u', 'c', 'cc') for o in scn['ops'][:ib]):
            return False
    if scn['prop'] == 'C11' and len(scn.get('envs', [])) < 2:
        return False
    return True


def _mk(scn, built=True):
    extra = {}
    if scn['kind'] == 'mia':
        extra.update(scn['mia'])
        extra['mia_precision'] = scn.get('mia_precision')
    if scn['kind'] in ('tstatic', 'tdpa'):
        extra['build'] = scn['build']
        extra['built'] = built
    return kinds.make(scn['kind'], scn['precision'], scn['classes'], extra)


def _same(scn, adapter, A, B, force_bitwise=False):
    """None if equal by the rule of DESIGN 3, else a description."""
    if set(A) != set(B):
        return 'keys %s vs %s' % (sorted(A), sorted(B))
    for k in sorted(A):
        a, b = A[k], B[k]
        if force_bitwise or scn['kind'] == 'mia' or (scn['regime'] == 'exact' and adapter.bitwise_result):
            ok = compare.bitwise(a, b)
            rule = 'bitwise'
        else:
            tol = compare.tol_for(scn['precision'])
            if k == 'pooled_covariance_inv':
                # a pseudo-inverse amplifies the rounding differences of the covariance by its condition number: judged against the scale of the
                # inverse itself, three digits looser
                tol = tol * 1e3
                ok = compare.close(a, b, tol, tol * float(np.max(np.abs(np.asarray(b, dtype='float64')))) if np.size(b) else tol)
            else:
                ok = compare.close(a, b, tol)
            rule = 'tol %g' % tol
        if not ok:
            return '%s differs (%s): maxdiff=%s a=%s b=%s' % (k, rule, compare.maxdiff(a, b), compare.describe(a), compare.describe(b))
    return None


def _other_word_layout(da):
    """The same rows with another layout of the intermediate values: never the shape the valid batches of the history have."""
    n = da.shape[0]
    flat = np.ascontiguousarray(da.reshape(n, -1))
    W = flat.shape[1]
    if da.ndim >= 3:
        return flat if W % 3 else np.ascontiguousarray(np.concatenate([flat, flat[:, :1]], 1))     # (n, a, b) -> (n, a*b) or (n, a*b + 1)
    if W % 2 == 0:
        return np.ascontiguousarray(flat.reshape(n, 2, W // 2))                                      # (n, 2k) -> (n, 2, k)
    return np.ascontiguousarray(np.concatenate([flat, flat, flat], 1).reshape(n, W, 3))             # (n, W) -> (n, W, 3)


def _bad_args(scn, bk, tr, da):
    kind = scn['kind']
    x0 = float(tr.flat[0]) if (tr.size and np.isfinite(tr.flat[0])) else 0.0                  # (the first cell may be one of the non-finite cells)
    v = int(tr.shape[0] + da.shape[0] + int(x0)) % 3        # deterministic variant of the refusal
    if bk == 'rows':
        return (tr, da[:-1]) if v else (tr[:-1], da)
    if bk == 'length':
        if v == 0 and tr.shape[1] >= 2:
            return np.ascontiguousarray(tr[:, :-1]), da                                   # shorter
        if v == 1:
            return np.ascontiguousarray(np.concatenate([tr, tr, tr[:, :1]], 1)), da       # much longer
        return np.ascontiguousarray(np.concatenate([tr, tr[:, :1]], 1)), da
    if bk == 'words':
        flat = da.reshape(da.shape[0], -1)
        return tr, np.ascontiguousarray(np.concatenate([flat, flat[:, :1]], 1))
    if bk == 'type_traces':
        return tr.tolist(), da
    if bk == 'traces_1d':
        return np.ascontiguousarray(tr[:, 0]), da
    if bk == 'f16_traces':
        return tr.astype('float16'), da
    if bk == 'str_traces':
        # right shape, but the samples cannot be converted to numbers (a text export with a 'n/a' cell): the batch passes every shape check
        # and is refused only where the samples are first converted
        st = tr.astype('U12')
        st[(0, -1)[v % 2], (0, -1)[(v // 2) % 2]] = 'n/a'
        return st, da
    if bk == 'traces_3d':
        return np.ascontiguousarray(tr[:, :, None]), da          # right row count and length, one dimension too many
    if bk == 'type_data':
        return tr, None
    if bk == 'float_data':
        return tr, da.astype(['float32', 'float64', 'float16'][v])
    if bk == 'first_range':
        if kind == 'dpa':
            return tr, (da + 2).astype('uint8')
        return tr, (da.astype('uint16') + 300)
    if bk == 'neg_auto':
        d = da.astype('int8').copy()
        d.reshape(-1)[0] = -1
        return tr, d
    if bk in ('lowmem', 'not_built'):
        return tr, da
    if bk == 'tpl_two_words':
        flat = da.reshape(da.shape[0], -1)
        return tr, np.ascontiguousarray(np.concatenate([flat, flat], 1))
    raise KeyError(bk)


class Run:
    """One execution of a history on a fresh object under a given environment."""

    def __init__(self, scn, traces, data, clock=None, threads=None, record=None):
        self.scn, self.traces, self.data = scn, traces, data
        self.clock = env.SimClock((clock or {}).get('durs', ()))
        self.mem = env.SimMemory()
        self.threads = list(threads) if threads else None
        self.log = []
        self.accepted = []
        self.faults = {}
        self.probes = {}

    def probe(self, name, n=1):
        self.probes[name] = self.probes.get(name, 0) + n


def _apply(adapter, scn, traces, data, ranges):
    for a, b in ranges:
        adapter.update(traces[a:b], data[a:b])


def _twin_one_batch(scn, traces, data, accepted):
    """Fresh object of the same class given all accepted rows as ONE update, neutral conditions."""
    import numba
    tw = _mk(scn)
    idx = np.concatenate([np.arange(a, b) for a, b in accepted])
    saved = numba.get_num_threads()
    numba.set_num_threads(1)
    try:
        with env.clock(env.SimClock()), env.memory(env.SimMemory()):
            tw.update(relayout(traces[idx], scn.get('tlayout', 'C')), relayout(data[idx], scn.get('dlayout', 'C')))
            return tw, tw.compute()
    finally:
        numba.set_num_threads(saved)


def _twin_same_calls(scn, traces, data, accepted):
    """Fresh object that received only the accepted calls, one by one (C16 twin), under the same
    clock script (so the kernel schedule is the subject's and C16 does not depend on C11)."""
    import numba
    tw = _mk(scn)
    saved = numba.get_num_threads()
    numba.set_num_threads(1)
    try:
        with env.clock(env.SimClock(scn.get('clock', {}).get('durs', ()))), env.memory(env.SimMemory()):
            for a, b in accepted:
                tw.update(traces[a:b], data[a:b])
            return tw, tw.compute()
    finally:
        numba.set_num_threads(saved)


def viol(oracle, sig, detail):
    return {'oracle': oracle, 'sig': [str(s) for s in sig], 'detail': detail}


def execute(scn):
    env.boot()
    try:
        if scn['prop'] == 'C11':
            return _execute_c11(scn)
        return _execute_history(scn)
    except kinds.Unavailable as e:
        return {'violation': None, 'inconclusive': True, 'degraded': str(e), 'digest': 'unavailable', 'case': 'unavailable',
                'nontrivial': False, 'faults': {}, 'probes': {'seam_missing': 1}, 'sim_time': 0}
    finally:
        env.reset_globals()


def _execute_history(scn):
    import numba
    prop = scn['prop']
    kind = scn['kind']
    traces, data = make_data(scn)
    log = []
    probes = {}
    faults = {}

    def probe(name):
        probes[name] = probes.get(name, 0) + 1

    def fault(name, fired):
        c = faults.setdefault(name, [0, 0])
        c[0] += 1
        c[1] += int(fired)

    clock = env.SimClock(scn.get('clock', {}).get('durs', ()))
    mem = env.SimMemory()
    subject = _mk(scn, built=not scn.get('start_unbuilt'))
    recycle_bufs = None
    accepted = []
    violation = None
    inconclusive = False
    nupd = 0
    ncomp = 0
    kseq = []
    del env.KLOG[:]
    with env.clock(clock), env.memory(mem):
        for i, op in enumerate(scn['ops']):
            if op[0] == 't':
                numba.set_num_threads(op[1])
                log.append(['t', op[1]])
                probe('threads_%d' % op[1])
                continue
            if op[0] == 'build':
                subject.obj.build()
                log.append(['build'])
                continue
            if op[0] == 'u':
                a, b = op[1], op[2]
                before = len(env.KLOG)
                ta, da = traces[a:b], data[a:b]
                if scn.get('recycle'):
                    # the caller owns ONE batch buffer and refills it for every update (an acquisition loop, a reader recycling its buffer):
                    # whatever update() needs from a batch it must have consumed when it returns
                    if recycle_bufs is None:
                        nb_max = max(o[2] - o[1] for o in scn['ops'] if o[0] == 'u')
                        recycle_bufs = [np.empty((nb_max,) + traces.shape[1:], traces.dtype), np.empty((nb_max,) + data.shape[1:], data.dtype)]
                    recycle_bufs[0][:b - a] = ta
                    recycle_bufs[1][:b - a] = da
                    ta, da = recycle_bufs[0][:b - a], recycle_bufs[1][:b - a]
                try:
                    try:
                        subject.update(ta, da)
                    finally:
                        if recycle_bufs is not None:
                            recycle_bufs[0].fill(1)
                            recycle_bufs[1].fill(1)
                            probe('batch_buffer_recycled')
                except Exception as e:
                    # a valid batch must be accepted: every 'u' batch is shape-compatible by construction, so the arbiter is the ONE-BATCH twin
                    # (all rows so far in a single update).  A fresh object replaying the same calls would reproduce a refusal that depends on
                    # the split itself (a buffer sized by the first batch ...) and hide it.  Only where the configuration is by design taken
                    # from the first batch (automatic MIA bin edges) the same-calls twin decides.
                    try:
                        if (scn.get('mia') or {}).get('auto_edges'):
                            _twin_same_calls(scn, traces, data, accepted + [(a, b)])
                        else:
                            _twin_one_batch(scn, traces, data, accepted + [(a, b)])
                        twin_ok = True
                    except Exception:
                        twin_ok = False
                    if twin_ok:
                        bads = [o for o in scn['ops'][:i] if o[0] == 'bad']
                        if bads:
                            oracle = 'valid_call_rejected_after_refusal'
                            sig = [prop, oracle, kind, '+'.join(sorted(set(o[1] for o in bads))), 'first' if not accepted else 'later']
                        else:
                            oracle = 'valid_call_rejected'
                            sig = [prop, oracle, kind, type(e).__name__]
                        violation = viol(oracle, sig, 'op %d %r raised %r' % (i, op, e))
                    else:
                        inconclusive = True
                    break
                accepted.append((a, b))
                nupd += 1
                kseq.extend(k[1] for k in env.KLOG[before:])
                log.append(['u', a, b, [k[1] for k in env.KLOG[before:]]])
                if b - a == 1:
                    probe('batch_of_1')
                if any(k[1] == 2 for k in env.KLOG[before:]):
                    probe('kernel2_used')
                if prop == 'C16' and subject.count() != sum(y - x for x, y in accepted):
                    # count must equal accepted rows at all times
                    violation = viol('count_wrong', [prop, 'count_wrong', kind, 'after_accept'],
                                     'processed_traces=%s accepted rows=%s' % (subject.count(), sum(y - x for x, y in accepted)))
                    break
                continue
            if op[0] in ('c', 'cc'):
                if not accepted:
                    continue
                ncomp += 1
                try:
                    r1 = subject.compute()
                except Exception as e:
                    try:
                        if (scn.get('mia') or {}).get('auto_edges'):
                            _twin_same_calls(scn, traces, data, accepted)
                        else:
                            _twin_one_batch(scn, traces, data, accepted)
                        twin_ok = True
                    except Exception:
                        twin_ok = False
                    if twin_ok:
                        violation = viol('compute_raised', [prop, 'compute_raised', kind, type(e).__name__], 'op %d: %r' % (i, e))
                    else:
                        inconclusive = True
                    break
                log.append(['c', rng.digest({k: np.asarray(v).tobytes().hex() for k, v in r1.items()})])
                if op[0] == 'cc':
                    r2 = subject.compute()
                    d = _same(scn, subject, r2, r1, force_bitwise=True)
                    if d:
                        violation = viol('compute_not_idempotent', [prop, 'compute_not_idempotent', kind], 'op %d: %s' % (i, d))
                        break
                    probe('compute_twice')
                if nupd == 2 and any(o[0] == 'u' for o in scn['ops'][i:]):
                    probe('compute_between_2_and_3')
                if any(o[0] == 'u' for o in scn['ops'][i:]) and not any(o[0] == 'u' for o in scn['ops'][i + 1:][1:]):
                    probe('compute_before_last_batch')
                if prop == 'C01':
                    try:
                        tw, rt = _twin_one_batch(scn, traces, data, accepted)
                    except Exception as e:
                        # the split history just computed a result from these rows, the same rows as ONE batch are refused: the outcome
                        # depends on how the traces are cut into batches
                        violation = viol('one_batch_refused_but_split_accepted', [prop, 'one_batch_refused_but_split_accepted', kind, type(e).__name__],
                                         'after %d batches (op %d) the history computes a result, feeding the same %d rows as one batch raises %r' % (
                                             nupd, i, sum(y - x for x, y in accepted), e))
                        break
                    d = _same(scn, subject, r1, rt)
                    if d:
                        violation = viol('split_differs_from_one_batch', [prop, 'split_differs_from_one_batch', kind, scn['regime']],
                                         'after %d batches (op %d): %s' % (nupd, i, d))
                        break
                else:
                    tw, rt = _twin_same_calls(scn, traces, data, accepted)
                    d = _same(scn, subject, r1, rt, force_bitwise=(scn['regime'] == 'exact' and subject.bitwise_result))
                    if d:
                        violation = viol('result_differs_from_accepted_only', [prop, 'result_differs_from_accepted_only', kind],
                                         'op %d: %s' % (i, d))
                        break
                    if subject.count() != tw.count():
                        violation = viol('count_wrong', [prop, 'count_wrong', kind, 'at_compute'],
                                         'processed_traces=%s twin=%s' % (subject.count(), tw.count()))
                        break
                continue
            if op[0] == 'bad':
                bk, a, b = op[1], op[2], op[3]
                first = not accepted
                src = data[a:b] % 8 if (len(op) > 4 and op[4] == 'low') else data[a:b]
                tsrc = traces[a:b]
                if len(op) > 4 and op[4] in ('geom', 'geomtw') and first:
                    tsrc = np.ascontiguousarray(np.concatenate([tsrc, tsrc, tsrc[:, :1]], axis=1))
                if len(op) > 4 and op[4] in ('geomw', 'geomtw') and first:
                    src = _other_word_layout(src)
                bt, bd = _bad_args(scn, bk, tsrc, src)
                before = subject.count()
                if bk == 'lowmem':
                    mem.available = 1
                raised = None
                try:
                    subject.update(bt, bd)
                except Exception as e:
                    raised = e
                mem.available = 64 * 2 ** 30
                fname = 'refused_batch:' + bk if bk != 'lowmem' else 'low_memory'
                fault(fname, raised is not None)
                log.append(['bad', bk, a, b, type(raised).__name__ if raised is not None else None])
                if raised is None:
                    # C16 says nothing about calls that do not raise: the run is inconclusive
                    inconclusive = True
                    break
                probe('refusal_first' if first else 'refusal_later')
                if subject.count() != before:
                    violation = viol('count_changed', [prop, 'count_changed', kind, bk, 'first' if first else 'later'],
                                     'op %d %r raised %s but processed_traces %s -> %s' % (i, op, type(raised).__name__, before, subject.count()))
                    break
                continue
            raise KeyError(op)
    case = rng.digest([kind, scn['precision'], scn['tdtype'], scn['regime'], [o[0] if o[0] != 'u' else ['u', o[2] - o[1]] for o in scn['ops']],
                       [o[1] for o in scn['ops'] if o[0] == 'bad']])
    ker = kseq
    out = {'violation': violation, 'inconclusive': inconclusive, 'digest': rng.digest(log), 'case': case,
           'nontrivial': nupd >= 2 or bool(faults), 'faults': faults, 'probes': probes,
           'sim_time': clock.elapsed, 'kernel_seq': ''.join(map(str, ker)), 'ops': len(scn['ops'])}
    return out


def _execute_c11(scn):
    import numba
    kind = scn['kind']
    traces, data = make_data(scn)
    ups = [o for o in scn['ops'] if o[0] == 'u']
    outs = []
    seqs = []
    log = []
    probes = {}
    faults = {}
    sim_time = 0.0
    for e, envd in enumerate(scn['envs']):
        clock = env.SimClock(envd['clock'].get('durs', ()))
        model = envd['clock'].get('model', 'x')
        c = faults.setdefault({'jit_spike': 'clock_spike', 'zero': 'clock_zero', 'jump_back': 'clock_jump_back'}.get(model, 'clock_' + model), [0, 0])
        c[0] += 1
        del env.KLOG[:]
        subject = _mk(scn)
        with env.clock(clock), env.memory(env.SimMemory()):
            try:
                for (op, th) in zip(ups, envd['threads']):
                    numba.set_num_threads(th)
                    subject.update(traces[op[1]:op[2]], data[op[1]:op[2]])
                    probes['threads_%d' % th] = probes.get('threads_%d' % th, 0) + 1
                numba.set_num_threads(1)
                res = subject.compute()
            except Exception as e:
                # valid batches refused / compute failing under this environment: compared with the others below
                res = {'raised': np.array([hash(type(e).__name__) % 1000])}
                probes['env_raised'] = probes.get('env_raised', 0) + 1
        ker = ''.join(str(k[1]) for k in env.KLOG)
        if clock.reads:
            c[1] += 1
        sim_time += clock.elapsed
        seqs.append(ker)
        outs.append(res)
        log.append([e, ker, envd['threads'], rng.digest({k: np.asarray(v).tobytes().hex() for k, v in res.items()})])
        if '2' in ker and (scn['classes'] is not None and any(v not in scn['classes'] for v in scn['pool'])):
            probes['undeclared_while_kernel2'] = probes.get('undeclared_while_kernel2', 0) + 1
    violation = None
    if all('raised' in o for o in outs):
        # refused whatever the environment: not C11's question (C01 decides valid batches)
        return {'violation': None, 'inconclusive': True, 'digest': rng.digest(log), 'case': 'all-raised', 'nontrivial': False,
                'faults': faults, 'probes': probes, 'sim_time': sim_time, 'kernel_seqs': sorted(set(seqs)), 'ops': len(ups) * len(outs)}
    for e in range(1, len(outs)):
        if ('raised' in outs[e]) != ('raised' in outs[0]):
            what = 'kernel_schedule' if seqs[e] != seqs[0] else 'worker_count'
            violation = viol('env_mismatch', ['C11', 'env_mismatch', kind, scn['regime'], 'raises_in_one_environment', what],
                             'env %d (kernels %s threads %s) %s, env 0 (kernels %s threads %s) %s' % (
                                 e, seqs[e], scn['envs'][e]['threads'], 'raises' if 'raised' in outs[e] else 'computes',
                                 seqs[0], scn['envs'][0]['threads'], 'raises' if 'raised' in outs[0] else 'computes'))
            break
        d = _same_c11(scn, outs[e], outs[0])
        if d:
            what = 'kernel_schedule' if seqs[e] != seqs[0] else 'worker_count'
            narrow = 'narrow' if np.dtype(scn['tdtype']).itemsize < np.dtype(scn['precision']).itemsize and np.dtype(scn['tdtype']).kind == 'f' else 'same'
            violation = viol('env_mismatch', ['C11', 'env_mismatch', kind, scn['regime'], narrow, what],
                             'env %d (kernels %s threads %s) vs env 0 (kernels %s threads %s): %s' % (
                                 e, seqs[e], scn['envs'][e]['threads'], seqs[0], scn['envs'][0]['threads'], d))
            break
    case = rng.digest([kind, scn['precision'], scn['tdtype'], scn['regime'], sorted(set(seqs)), [o[2] - o[1] for o in ups]])
    return {'violation': violation, 'inconclusive': False, 'digest': rng.digest(log), 'case': case,
            'nontrivial': len(set(seqs)) > 1 or len(set(tuple(e['threads']) for e in scn['envs'])) > 1,
            'faults': faults, 'probes': probes, 'sim_time': sim_time, 'kernel_seqs': sorted(set(seqs)), 'ops': len(ups) * len(outs)}


def _same_c11(scn, A, B):
    if set(A) != set(B):
        return 'outputs %s vs %s' % (sorted(A), sorted(B))
    for k in sorted(A):
        a, b = A[k], B[k]
        if scn['kind'] == 'mia' or scn['regime'] == 'exact':
            ok = compare.bitwise(a, b)
            rule = 'bitwise'
        else:
            tol = compare.tol_for(scn['precision'])
            if k == 'pooled_covariance_inv':
                tol = tol * 1e3
                ok = compare.close(a, b, tol, tol * float(np.max(np.abs(np.asarray(b, dtype='float64')))) if np.size(b) else tol)
            else:
                ok = compare.close(a, b, tol)
            rule = 'tol %g' % tol
        if not ok:
            return '%s differs (%s): maxdiff=%s a=%s b=%s' % (k, rule, compare.maxdiff(a, b), compare.describe(a), compare.describe(b))
    return None


# ----------------------------------------------------------------------------- shrinking

def candidates(scn):
    """Simpler scenarios, most aggressive first."""
    ops = scn['ops']
    n = len(ops)
    # 1. drop chunks of operations
    size = n // 2
    while size >= 1:
        for i in range(0, n, size):
            c = copy.deepcopy(scn)
            c['ops'] = ops[:i] + ops[i + size:]
            yield c
        size //= 2
    # 2. environments (C11): keep env 0 and one other
    if scn.get('envs') and len(scn['envs']) > 2:
        for j in range(1, len(scn['envs'])):
            c = copy.deepcopy(scn)
            c['envs'] = [scn['envs'][0], scn['envs'][j]]
            yield c
    if scn.get('envs'):
        for j, e in enumerate(scn['envs']):
            if any(t != 1 for t in e['threads']):
                c = copy.deepcopy(scn)
                c['envs'][j]['threads'] = [1] * len(e['threads'])
                yield c
            if e['clock'].get('durs'):
                c = copy.deepcopy(scn)
                c['envs'][j]['clock'] = {'model': 'steady', 'durs': []}
                yield c
    # 3. shorter batches
    for i, op in enumerate(ops):
        if op[0] == 'u' and op[2] - op[1] > 1:
            for newlen in sorted(set([1, (op[2] - op[1]) // 2])):
                c = copy.deepcopy(scn)
                c['ops'][i] = ['u', op[1], op[1] + newlen]
                yield c
        if op[0] == 'bad' and op[3] - op[2] > 2:
            c = copy.deepcopy(scn)
            c['ops'][i] = ['bad', op[1], op[2], op[2] + 2] + op[4:]
            yield c
        if op[0] == 'cc':
            c = copy.deepcopy(scn)
            c['ops'][i] = ['c']
            yield c
    # 4. simpler configuration
    if scn['m'] > 1:
        for nm in sorted(set([1, scn['m'] // 2])):
            if scn['kind'] in ('tstatic', 'tdpa'):
                continue
            c = copy.deepcopy(scn)
            c['m'] = nm
            yield c
    if len(scn['wshape']) > 1 or scn['wshape'][0] > 1:
        if scn['kind'] != 'tdpa':
            c = copy.deepcopy(scn)
            c['wshape'] = [1]
            yield c
    if scn.get('clock', {}).get('durs'):
        c = copy.deepcopy(scn)
        c['clock'] = {'model': 'steady', 'durs': []}
        yield c
    if scn['regime'] == 'exact' and scn['tdtype'] != 'uint8':
        c = copy.deepcopy(scn)
        c['tdtype'] = 'uint8'
        yield c
    if scn.get('offset'):
        c = copy.deepcopy(scn)
        c['offset'] = 0
        yield c
    for key in ('tlayout', 'dlayout', 'ddtype'):
        if scn.get(key):
            c = copy.deepcopy(scn)
            c.pop(key)
            yield c
    if scn['regime'] == 'exact' and scn['amp'] > 1:
        c = copy.deepcopy(scn)
        c['amp'] = 1
        yield c


def summary(scn):
    """Compact written-out form of a case for the evidence file."""
    s = {k: scn[k] for k in ('kind', 'precision', 'tdtype', 'ddtype', 'tlayout', 'dlayout', 'regime', 'm', 'wshape', 'classes') if k in scn}
    s['ops'] = [o if o[0] != 'u' else ['u', o[2] - o[1]] for o in scn['ops']]
    if 'clock' in scn:
        s['clock'] = scn['clock'].get('model')
    if 'envs' in scn:
        s['envs'] = [[e['clock'].get('model'), e['threads']] for e in scn['envs']]
    return s
