"""E3 - deterministic thread simulation for TTestAnalysis (C09).

Real threading.Thread objects run real scared code, but *who runs* is never real: every
participating thread (main, accumulator 1, accumulator 2) owns a semaphore and runs only
while it holds the baton.  Pre-emption points: every new line and every call/return of a
frame under scared/ (sys.settrace), every storage fetch, every preprocess call.  A seeded
policy (or an explicit sparse switch list in replay files) decides every hand-over.
"""
import copy
import os
import sys
import threading
import time as _time
from fractions import Fraction

import numpy as np

from .. import compare, env, rng
from ..storage import Storage, make_ths

RULE = {'C09': 'seeded scenarios (two trace sets per run, 1-3 runs, batch rule, frame, 0-2 preprocesses, dtype per run and per set incl. 12/16-bit amplitudes, a non-integer float regime in several physical units, sets of up to 60 rows (a few: 200-1500 rows, 257-520 samples), precision, worker counts per thread, kernels run from their Python source in a quarter of the scenarios (interleavings inside the kernels), '
               'batch-rule flip) each executed under several seeded scheduling policies (uniform, sticky, starve-1/2, alternate, main-first/last, PCT, post-fault-uniform) at line granularity; fault scenarios inject a storage or '
               'preprocess failure in thread 1, 2 or both on the k-th batch, in one or two run() calls of the same object; non-trivial = at least one context switch between the accumulator '
               'threads while both were mid-container or a fault fired; distinct = distinct context-switch digests (sequence of (yield site, chosen thread) hand-overs)'}
SIM_TIME_UNIT = {'C09': 'scheduler decisions (yield points)'}
ASSUMPTIONS = {'C09': [
    'a compiled numba kernel call is one atomic step; two compiled kernels physically overlapping (nogil) is not simulated - in a quarter of the scenarios the kernels of scared.ttest run from their Python source (py_func) instead, where each of their source lines is a pre-emption point',
    'pre-emption granularity is one source line of scared/ (plus call/return, storage fetch, preprocess call); switches inside one line are not explored',
    'Welch reference in exact rational arithmetic on the frame/preprocess image; compared within a forward rounding-error bound of the requested precision; '
    'entries whose reference denominator is zero or whose bound exceeds half the value are not compared',
    'how quickly the surviving thread stops after a failure is not judged; the harness drains it after run() has returned',
    'after a failed run() the value of later results is not judged (partial accumulation is schedule dependent); a later healthy run must return normally and grow each accumulator by its own set, a later failing run must re-raise',
    'a timed join sleeps for 25 scheduler decisions of simulated time or until the target is done',
    'join(X) may return when X is done or when X._tstate_lock is unlocked (scared releases that lock by hand)']}

REPO_PREFIX = os.path.join(env.REPO, 'scared') + os.sep     # refreshed from scared.__file__ at first use


class InjectedIOError(OSError):
    pass


class InjectedFault(Exception):
    pass


class SimAbort(BaseException):
    pass


# ----------------------------------------------------------------------------- scheduler

class Sim:
    def __init__(self, policy=None, schedule=None, cap=200000, granularity='line'):
        self.policy = policy or {'name': 'uniform', 'seed': 0}
        self.prng = rng.stream(self.policy.get('seed', 0), 'schedule')
        self.replay = schedule            # {'switches': {ordinal(str): name}} or None
        self.threads = {}
        self.objs = {}
        self.pending = []
        self.log = []
        self.seq = 0
        self.decisions = 0
        self.cap = cap
        self.switches = {}                # deviations from the default rule (sparse explicit schedule)
        self.ctx = []                     # context switches (site, from, to)
        self.aborted = False
        self.deadlock = False
        self.granularity = granularity
        self.current = 'main'
        self.stalled = {}
        self.hooks = {}                   # ordinal -> callable (batch-rule flip)
        self.acc_switch_mid = 0
        self.lastline = {}
        if self.policy.get('name') == 'pct':
            self.pct_prio = dict(self.policy['prio'])
            self.pct_changes = set(self.policy['changes'])

    @staticmethod
    def role(name):
        return 'main' if name == 'main' else name[-4:]

    def register(self, name, state='runnable'):
        st = {'sem': threading.Semaphore(0), 'state': state, 'waiting_for': None, 'parked': threading.Event()}
        self.threads[name] = st
        return st

    def ev(self, *a):
        self.seq += 1
        self.log.append((self.seq,) + a)

    def runnable(self):
        r = []
        for n in sorted(self.threads):
            st = self.threads[n]
            if st['state'] == 'runnable':
                r.append(n)
            elif st['state'] == 'draining':
                if all(v['state'] == 'done' for k, v in self.threads.items() if k != n):
                    r.append(n)
            elif st['state'] == 'sleeping' and st['waiting_for'] is None:
                if self.decisions >= st.get('wake_at', 0):
                    r.append(n)          # a plain sleep (simulated time = scheduler decisions)
            elif st['state'] in ('joining', 'sleeping'):
                tgt = self.threads.get(st['waiting_for'])
                obj = self.objs.get(st['waiting_for'])
                lk = getattr(obj, '_tstate_lock', None)
                if tgt is None or tgt['state'] == 'done' or (tgt['state'] != 'unstarted' and (lk is None or not lk.locked())):
                    r.append(n)
                elif st['state'] == 'sleeping' and self.decisions >= st.get('wake_at', 0):
                    r.append(n)          # a timed join that timed out (simulated time = scheduler decisions)
        if not r:
            # nobody else can run: a sleeper's timeout expires (time jumps to the next timer)
            r = [n for n in sorted(self.threads) if self.threads[n]['state'] == 'sleeping']
        if self.stalled:
            r2 = [n for n in r if self.stalled.get(n, -1) <= self.decisions]
            if r2:
                r = r2
        return r

    def default_choice(self, name, r):
        return name if name in r else r[0]

    def choose(self, name, r):
        k = self.decisions
        dflt = self.default_choice(name, r)
        if self.replay is not None:
            want = self.replay['switches'].get(str(k))
            nxt = want if want in r else dflt
        else:
            p = self.policy
            pn = p['name']
            if pn == 'uniform':
                nxt = self.prng.choice(r)
            elif pn == 'sticky':
                if name in r and self.prng.random() >= p.get('p', 0.1):
                    nxt = name
                else:
                    o = [x for x in r if x != name] or r
                    nxt = self.prng.choice(o)
            elif pn == 'starve':
                victim = p.get('victim', 'acc1')
                o = [x for x in r if not x.endswith(victim)]
                if o:
                    nxt = name if (name in o and self.prng.random() >= p.get('p', 0.1)) else self.prng.choice(o)
                else:
                    nxt = dflt
            elif pn == 'alternate':
                i = (r.index(name) + 1) % len(r) if name in r else 0
                nxt = r[i]
            elif pn == 'main_first':
                if 'main' in r and self.prng.random() >= p.get('p', 0.05):
                    nxt = 'main'
                elif name in r and self.prng.random() >= 0.3:
                    nxt = name
                else:
                    nxt = self.prng.choice(r)
            elif pn == 'pfu':
                # post-fault uniform: long quiet stretches until an injected fault has fired, then maximal mixing of main and the surviving
                # thread - the window in which failure hand-over and cleanup code runs
                if any(f.get('fired') for f in getattr(self, 'faults', ())):
                    nxt = self.prng.choice(r)
                elif name in r and self.prng.random() >= 0.05:
                    nxt = name
                else:
                    nxt = self.prng.choice([x for x in r if x != name] or r)
            elif pn == 'pct':
                # PCT-style: strict priorities per role, lowered at a few seeded change points
                pr = self.pct_prio
                if k in self.pct_changes and name in r:
                    pr[self.role(name)] = min(pr.values()) - 1
                nxt = max(r, key=lambda x: (pr.get(self.role(x), 0), x))
            elif pn == 'main_last':
                o = [x for x in r if x != 'main']
                if o:
                    nxt = name if (name in o and self.prng.random() >= p.get('p', 0.2)) else self.prng.choice(o)
                else:
                    nxt = 'main'
            else:
                nxt = dflt
        if nxt != dflt:
            self.switches[str(k)] = nxt
        return nxt

    def yield_point(self, name, what):
        if self.aborted:
            raise SimAbort()
        self.decisions += 1
        h = self.hooks.pop(self.decisions, None)
        if h is not None:
            h()
        if self.decisions > self.cap:
            self.abort('cap')
            raise SimAbort()
        r = self.runnable()
        if not r:
            self.deadlock = True
            self.abort('deadlock')
            raise SimAbort()
        nxt = self.choose(name, r)
        if nxt != name:
            self.ctx.append((what, name, nxt))
            self.current = nxt
            self.threads[nxt]['sem'].release()
            self.threads[name]['sem'].acquire()
            if self.aborted:
                raise SimAbort()
            self.settle()

    def block_until_runnable(self, name):
        """Caller is not runnable (joining): hand the baton over and wait."""
        while True:
            if self.aborted:
                raise SimAbort()
            r = self.runnable()
            if name in r:
                return
            if not r:
                self.deadlock = True
                self.abort('deadlock')
                raise SimAbort()
            self.decisions += 1
            if self.decisions > self.cap:
                self.abort('cap')
                raise SimAbort()
            nxt = self.choose(name, r)
            self.ctx.append(('join-wait', name, nxt))
            self.current = nxt
            self.threads[nxt]['sem'].release()
            self.threads[name]['sem'].acquire()
            if self.aborted:
                raise SimAbort()
            self.settle()

    def settle(self):
        """Thread teardown is atomic with the thread's last step (see DESIGN 2.3)."""
        for lbl in list(self.pending):
            obj = self.objs.get(lbl)
            lk = getattr(obj, '_tstate_lock', None)
            while lk is not None and lk.locked():
                _time.sleep(0)
                lk = getattr(obj, '_tstate_lock', None)
            self.pending.remove(lbl)

    def finish(self, name):
        self.pending.append(name)
        self.threads[name]['state'] = 'done'
        self.ev('done', name)
        if self.aborted:
            return
        r = self.runnable()
        if r:
            self.decisions += 1
            nxt = self.choose(name, r)
            self.ctx.append(('exit', name, nxt))
            self.current = nxt
            self.threads[nxt]['sem'].release()
        else:
            self.deadlock = True
            self.abort('deadlock')

    def abort(self, why):
        if not self.aborted:
            self.aborted = why
            self.ev('ABORT', why)
            for st in self.threads.values():
                st['sem'].release()
                st['sem'].release()


SIM = None


def tname():
    return getattr(threading.current_thread(), '_sim_name', None)


def global_tracer(frame, event, arg):
    try:
        if not frame.f_code.co_filename.startswith(REPO_PREFIX):
            return None
        name = tname()
        sim = SIM
        if name is None or sim is None or sim.aborted:
            return None
        sim.yield_point(name, 'call %s:%s' % (os.path.basename(frame.f_code.co_filename), frame.f_code.co_name))
        return local_tracer
    except SimAbort:
        raise
    except BaseException as e:      # a raising trace function is silently disabled by CPython: abort loudly instead
        if SIM is not None:
            SIM.ev('TRACER-ERROR', repr(e))
            SIM.abort('tracer-error')
        raise SimAbort()


def local_tracer(frame, event, arg):
    try:
        sim = SIM
        name = tname()
        if name is None or sim is None or sim.aborted:
            return local_tracer
        if event == 'line':
            if sim.granularity != 'line':
                return local_tracer
            fid = id(frame)
            if sim.lastline.get(fid) == frame.f_lineno:
                return local_tracer          # CPython 3.12 re-emits a line event after a call returns on first execution
            sim.lastline[fid] = frame.f_lineno
            sim.yield_point(name, '%s:%d' % (os.path.basename(frame.f_code.co_filename), frame.f_lineno))
        elif event == 'return':
            sim.lastline.pop(id(frame), None)
            sim.yield_point(name, 'ret %s:%s' % (os.path.basename(frame.f_code.co_filename), frame.f_code.co_name))
        return local_tracer
    except SimAbort:
        raise
    except BaseException as e:
        if SIM is not None:
            SIM.ev('TRACER-ERROR', repr(e))
            SIM.abort('tracer-error')
        raise SimAbort()


# ----------------------------------------------------------------------------- thread seam

_PATCH = {}


def install_thread_seam(scared):
    K = scared.TTestThreadAccumulator
    if _PATCH:
        return True
    try:
        orig_start, orig_run, orig_join = K.start, K.run, K.join
    except AttributeError:
        return False
    _PATCH.update(start=orig_start, run=orig_run, join=orig_join)

    def start(self, *args, **kw):
        # signature-agnostic wrappers: a refactoring may add parameters to start()/run()/join()
        sim = SIM
        if sim is None or tname() is None:
            return orig_start(self, *args, **kw)
        sim.nstart = getattr(sim, 'nstart', 0) + 1
        label = 'r%dacc%d' % (sim.run_index, 1 + (sim.nstart - 1) % 2)
        self._sim_label = label
        st = sim.register(label, 'unstarted')
        sim.objs[label] = self
        sim.ev('start', label)
        r = orig_start(self, *args, **kw)
        st['parked'].wait()
        st['state'] = 'runnable'
        return r

    def run(self, *args, **kw):
        sim = SIM
        label = getattr(self, '_sim_label', None)
        if sim is not None and label and threading.current_thread() is self and label in sim.threads and sim.threads[label]['state'] == 'unstarted':
            self._sim_name = label
            st = sim.threads[label]
            st['parked'].set()
            st['sem'].acquire()            # wait to be scheduled for the first time
            try:
                if not sim.aborted:
                    sim.settle()
                    sys.settrace(global_tracer)
                return orig_run(self, *args, **kw)
            except SimAbort:
                return None
            finally:
                sys.settrace(None)
                self._sim_name = None
                sim.finish(label)
        return orig_run(self, *args, **kw)

    def join(self, *args, **kw):
        sim = SIM
        name = tname()
        label = getattr(self, '_sim_label', None)
        if sim is not None and name is not None and label in sim.threads and not sim.aborted:
            timeout = kw.get('timeout', args[0] if args else None)
            st = sim.threads[name]
            st['state'] = 'joining' if timeout is None else 'sleeping'
            st['waiting_for'] = label
            if timeout is not None:
                # a timed join (not used by the pinned code; a refactoring may poll): the caller sleeps for a fixed amount of simulated
                # time (scheduler decisions) or until the target is done, then performs a non-blocking real join
                st['wake_at'] = sim.decisions + 25
                sim.ev('timed-join', name, label)
            else:
                sim.ev('join', name, label)
            try:
                sim.block_until_runnable(name)
                sim.settle()
            finally:
                st['state'] = 'runnable'
                st['waiting_for'] = None
            if timeout is not None:
                if 'timeout' in kw:
                    kw['timeout'] = 0
                else:
                    args = (0,) + tuple(args[1:])
        return orig_join(self, *args, **kw)

    K.start, K.run, K.join = start, run, join
    _install_generic_seams(scared)
    return True


SIM_TICK = 0.002          # simulated seconds per scheduler decision (for code that reads a clock or sleeps)


def _joinable(sim, label):
    tgt = sim.threads.get(label)
    obj = sim.objs.get(label)
    lk = getattr(obj, '_tstate_lock', None)
    return tgt is None or tgt['state'] == 'done' or (tgt['state'] != 'unstarted' and (lk is None or not lk.locked()))


def _install_generic_seams(scared):
    """For refactorings that do not go through TTestThreadAccumulator.join: threading.Thread.join called directly (super().join(timeout) in a
    helper), and a time module imported by scared.ttest / scared.container (deadlines, sleeps).  Inactive outside a simulated thread."""
    if getattr(threading.Thread.join, '_sim_aware', False):
        return
    orig_thread_join = threading.Thread.join

    def thread_join(self, timeout=None):
        sim = SIM
        name = tname()
        label = getattr(self, '_sim_label', None)
        if sim is None or name is None or label is None or label not in sim.threads or sim.aborted or _joinable(sim, label):
            return orig_thread_join(self, timeout)
        st = sim.threads[name]
        if st['state'] != 'runnable':
            return orig_thread_join(self, timeout)          # already inside a modelled wait (the class-level join wrapper)
        st['state'] = 'joining' if timeout is None else 'sleeping'
        st['waiting_for'] = label
        if timeout is not None:
            st['wake_at'] = sim.decisions + max(1, int(float(timeout) / SIM_TICK))
        sim.ev('thread-join', name, label, None if timeout is None else round(float(timeout), 4))
        try:
            sim.block_until_runnable(name)
            sim.settle()
        finally:
            st['state'] = 'runnable'
            st['waiting_for'] = None
        return orig_thread_join(self, None if timeout is None else 0)
    thread_join._sim_aware = True
    threading.Thread.join = thread_join

    class SimTime:
        def __init__(self, real):
            self._real = real

        def __getattr__(self, k):
            return getattr(self._real, k)

        def _now(self):
            sim = SIM
            if sim is not None and tname() is not None:
                return 1000.0 + sim.decisions * SIM_TICK
            return None

        def monotonic(self):
            v = self._now()
            return self._real.monotonic() if v is None else v

        def time(self):
            v = self._now()
            return self._real.time() if v is None else v

        def perf_counter(self):
            v = self._now()
            return self._real.perf_counter() if v is None else v

        def sleep(self, d):
            sim = SIM
            name = tname()
            if sim is None or name is None or sim.aborted:
                return self._real.sleep(d)
            st = sim.threads[name]
            st['state'] = 'sleeping'
            st['waiting_for'] = None
            st['wake_at'] = sim.decisions + max(1, int(float(d) / SIM_TICK))
            sim.ev('sleep', name, round(float(d), 4))
            try:
                sim.block_until_runnable(name)
            finally:
                st['state'] = 'runnable'
    for modname in ('scared.ttest', 'scared.container'):
        mod = sys.modules.get(modname)
        if mod is None:
            continue
        for attr, val in list(vars(mod).items()):
            if val is _time:
                setattr(mod, attr, SimTime(_time))


# ----------------------------------------------------------------------------- callbacks

_CB = {}


def callbacks():
    if _CB:
        return _CB
    scared = env.boot()

    def guard(tag):
        sim = SIM
        name = tname()
        if sim is None or name is None:
            return
        if name != 'main':
            c = sim.pp_calls.get(name, 0) + 1
            sim.pp_calls[name] = c
            sim.ev('pp', name, tag, c)
            for f in sim.faults:
                if f['kind'] == 'callback_error' and name == 'r%dacc%d' % (f['run'], f['thread']) and f['nth'] == c and not f.get('fired'):
                    f['fired'] = True
                    sim.ev('FAULT', name, 'callback_error')
                    e = InjectedFault('injected preprocess failure in %s' % name)
                    sim.injected.append(e)
                    raise e
        sim.yield_point(name, 'pp ' + tag)

    @scared.preprocess
    def pp_rev_affine(traces):
        guard('rev_affine')
        return traces[:, ::-1].astype('float32') * 2 + 1

    @scared.preprocess
    def pp_append_prod(traces):
        guard('append_prod')
        t = traces.astype('float32')
        return np.concatenate([t, t[:, :1] * t[:, -1:]], axis=1)

    @scared.preprocess
    def pp_cast(traces):
        guard('cast')
        return traces.astype('float32')
    def linear(tag, mul, add):
        # two closures of one factory: distinct callables with the same __name__
        @scared.preprocess
        def pp_linear(traces):
            guard(tag)
            return traces.astype('float32') * mul + add
        return pp_linear
    _CB.update({'rev_affine': pp_rev_affine, 'append_prod': pp_append_prod, 'cast': pp_cast, 'lin_a': linear('lin_a', 2, 0), 'lin_b': linear('lin_b', 1, 3)})
    return _CB


def pure_chain(names, E):
    for nme in names:
        if nme == 'rev_affine':
            E = E[:, ::-1].astype('float32') * 2 + 1
        elif nme == 'append_prod':
            t = E.astype('float32')
            E = np.concatenate([t, t[:, :1] * t[:, -1:]], axis=1)
        elif nme == 'cast':
            E = E.astype('float32')
        elif nme == 'lin_a':
            E = E.astype('float32') * 2 + 0
        elif nme == 'lin_b':
            E = E.astype('float32') * 1 + 3
        else:
            raise KeyError(nme)
    return E


def np_frame(fr):
    if fr is None:
        return None
    k = fr[0]
    if k == 'slice':
        return slice(fr[1], fr[2], fr[3])
    if k == 'list':
        return list(fr[1])
    if k == 'range':
        return range(fr[1], fr[2], fr[3])
    return Ellipsis


# ----------------------------------------------------------------------------- generation

def _w(r, items):
    tot = sum(w for _, w in items)
    x = r.random() * tot
    for v, w in items:
        x -= w
        if x < 0:
            return v
    return items[-1][0]


POLICIES = ['uniform', 'sticky', 'starve1', 'starve2', 'alternate', 'main_first', 'main_last', 'pct', 'pct', 'pfu']


def gen_policy(r, name=None):
    name = name or r.choice(POLICIES)
    seed = r.getrandbits(48)
    if name == 'sticky':
        return {'name': 'sticky', 'p': r.choice([0.02, 0.1, 0.3]), 'seed': seed}
    if name == 'starve1':
        return {'name': 'starve', 'victim': 'acc1', 'p': 0.1, 'seed': seed}
    if name == 'starve2':
        return {'name': 'starve', 'victim': 'acc2', 'p': 0.1, 'seed': seed}
    if name == 'main_first':
        return {'name': 'main_first', 'p': 0.05, 'seed': seed}
    if name == 'main_last':
        return {'name': 'main_last', 'p': 0.2, 'seed': seed}
    if name == 'pct':
        roles = ['main', 'acc1', 'acc2']
        pri = r.sample([3, 2, 1], 3)
        d = r.choice([1, 2, 2, 3, 4])
        horizon = r.choice([150, 400, 1200, 4000])
        return {'name': 'pct', 'prio': dict(zip(roles, pri)), 'changes': sorted(r.sample(range(1, horizon), d)), 'seed': seed}
    return {'name': name, 'seed': seed}


def generate(prop, seed, tier):
    r = rng.stream(seed, 'workload')
    sr = rng.stream(seed, 'schedule')
    fr = rng.stream(seed, 'faults')
    kn = rng.stream(seed, 'knobs')
    thorough = tier == 'thorough'
    m = r.randint(1, 6)
    nruns = r.choice([1, 1, 1, 2, 3] + ([4, 5] if thorough else []))
    ml = rng.stream(seed, 'mlong')
    if ml.random() < 0.03:
        m = ml.randint(257, 520)          # traces of several hundred samples (a kernel blocked over the sample axis takes more than one block)
    sets = [[_w(r, [(r.randint(1, 8), 3), (r.randint(9, 30), 3), (r.randint(31, 60), 1)]) for _ in range(2)] for _ in range(nruns)]
    rule = _w(r, [(r.randint(1, 4), 4), (r.randint(5, 12), 3), (r.randint(13, 70), 1), (r.choice([1e-5, 5e-5]), 0.7), ([[0, 3], [4, 7]], 0.7)])
    bg = rng.stream(seed, 'bigsets')
    if bg.random() < 0.04:
        # a few batches of several hundred rows each: sums kept in a narrow type, block-wise kernels, thresholds on the batch size
        sets = [[bg.randint(200, 1500) for _ in range(2)] for _ in range(nruns)]
        rule = bg.choice([128, 256, 500, 512, 1000, 1024, 2000])
    frame = r.choice([None, None, ['slice', 0, max(1, m - 1), None], ['list', [m - 1, 0]], ['range', 0, m, 2]])
    if m >= 3 and rng.stream(seed, 'frame2').random() < 0.12:
        frame = ['list', rng.stream(seed, 'frame3').choice([[2, 0, 1], [1, 2, 0], [m - 1, 0, 1, 0]])]
    chain = r.choice([[], [], [], ['cast'], ['rev_affine'], ['rev_affine', 'append_prod'], ['append_prod']])
    c2 = rng.stream(seed, 'chain2')
    if c2.random() < 0.12:
        # the same callable twice / two callables sharing a name
        chain = c2.choice([['rev_affine', 'rev_affine'], ['append_prod', 'append_prod'], ['lin_a', 'lin_b'], ['lin_b', 'rev_affine', 'lin_a']])
    faulty = fr.random() < 0.5
    scn = {'prop': 'C09', 'engine': 'ttest', 'seed': seed, 'precision': r.choice(['float32', 'float64']),
           'tdtype': r.choice(['uint8', 'uint8', 'float32', 'int16'] + (['int16', 'float64', 'int8'] if thorough else [])),
           'm': m, 'amp': r.choice([1, 3, 15, 255]), 'sets': sets, 'rule': rule, 'frame': frame, 'chain': chain, 'table_seed': rng.H(seed, 'table'),
           'granularity': 'line' if (not thorough or sr.random() < 0.85) else 'call',
           'workers': [kn.choice([1, 1, 2, 16]), kn.choice([1, 1, 2, 16])],
           'rule_flip': None, 'stall': None, 'faults': []}
    if rng.stream(seed, 'dtypeb').random() < 0.15:
        scn['tdtype_b'] = rng.stream(seed, 'dtypeb2').choice(['uint8', 'int16', 'float32'])
    if rng.stream(seed, 'kernelpy').random() < 0.25 and max(max(p) for p in sets) <= 60 and m <= 8:
        # the accumulation kernels run from their Python source: their lines are pre-emption points (interleavings inside the kernels)
        scn['kernel_py'] = True
    if rng.stream(seed, 'wide16').random() < 0.5:
        scn['wide16'] = rng.stream(seed, 'wide16b').choice([4094, 32766, 65534])
    if rng.stream(seed, 'frac').random() < 0.2:
        # float regime of the t-test: float64 (or float32) traces with non-integer values
        scn['tdtype'] = rng.stream(seed, 'frac2').choice(['float64', 'float64', 'float32'])
        scn['frac'] = rng.stream(seed, 'frac3').choice([30.0, 0.25, 1000.0])
        # ... in another physical unit (volts instead of ADC counts, or microvolts): the Welch statistic is scale invariant
        scn['fscale'] = rng.stream(seed, 'frac4').choice([1, 1, 1e-4, 1e-6, 1e3])
    if nruns >= 2 and rng.stream(seed, 'rundtypes').random() < 0.35:
        # each run() may bring traces of another storage dtype (an acquisition continued with another scope setting)
        rd = rng.stream(seed, 'rundtypes2')
        scn['tdtypes'] = [scn['tdtype']] + [rd.choice(['uint8', 'int16', 'float32']) for _ in range(nruns - 1)]
    npol = (4 if not faulty else 2) + (2 if thorough else 0)
    names = sr.sample(POLICIES, npol)
    if faulty and 'pfu' not in names and sr.random() < 0.5:
        names[-1] = 'pfu'
    if not faulty and 'pfu' in names:
        names[names.index('pfu')] = 'uniform' if 'uniform' not in names else 'sticky'
    scn['policies'] = [gen_policy(sr, nme) for nme in names]
    if scn['tdtype'] == 'int8':
        scn['amp'] = min(scn['amp'], 254)
    if kn.random() < 0.15:
        scn['rule_flip'] = {'at': kn.randint(5, 400), 'rule': kn.choice([1, 2, 5, 9])}
        if not sums_exact(scn):
            # a flip of the process-global batch rule can change the batch partition differently under different schedules; results are
            # then only equal up to rounding unless every sum is exact - and schedule independence is judged bitwise
            scn['rule_flip'] = None
    if kn.random() < 0.15:
        scn['stall'] = {'thread': kn.choice([1, 2]), 'after_read': kn.randint(1, 4), 'decisions': kn.choice([50, 300, 2000])}
    if faulty:
        j = fr.randrange(nruns)
        nf = 2 if fr.random() < 0.2 else 1
        ths = fr.sample([1, 2], nf)
        for t in ths:
            kind = 'storage_read_error' if (fr.random() < 0.7 or not chain) else 'callback_error'
            nb = 5
            b = rule if isinstance(rule, int) else 10
            nbatches = max(1, -(-sets[j][t - 1] // max(1, b)))
            nth = _w(fr, [(1, 3), (nbatches, 2), (fr.randint(1, nbatches), 3), (nbatches + 2, 0.3)])
            if kind == 'callback_error':
                nth = max(1, nth) * len(chain) - fr.randrange(len(chain))
            scn['faults'].append({'kind': kind, 'thread': t, 'run': j, 'nth': int(nth)})
        if nruns >= 2 and fr.random() < 0.45:
            # a second failing run() on the same analysis object: every failing run must re-raise, not only the first
            f0 = scn['faults'][0]
            j2 = fr.choice([x for x in range(nruns) if x != f0['run']])
            t2 = f0['thread'] if fr.random() < 0.6 else 3 - f0['thread']
            b = rule if isinstance(rule, int) else 10
            nb2 = max(1, -(-sets[j2][t2 - 1] // max(1, b)))
            scn['faults'].append({'kind': 'storage_read_error', 'thread': t2, 'run': j2, 'nth': fr.randint(1, nb2)})
    return scn


def make_sets(scn):
    g = rng.np_stream(scn['table_seed'], 'ttest')
    out = []
    for j, pair in enumerate(scn['sets']):
        td = np.dtype((scn.get('tdtypes') or [scn['tdtype']] * len(scn['sets']))[j] if j < len(scn.get('tdtypes') or scn['sets']) else scn['tdtype'])
        amp = min(scn['amp'], 254) if td == np.dtype('int8') else scn['amp']
        if td == np.dtype('int16') and scn.get('wide16'):
            amp = scn['wide16']          # 12-bit / full-scale 16-bit acquisitions: sums of squares beyond 2^31 within a few traces
        p = []
        td_a, amp_a = td, amp
        for which, n in enumerate(pair):
            td, amp = td_a, amp_a
            if which == 1 and scn.get('tdtype_b'):
                # the second set was acquired with another storage dtype than the first
                td = np.dtype(scn['tdtype_b'])
                amp = min(scn['amp'], 254) if td == np.dtype('int8') else scn['amp']
                if td == np.dtype('int16') and scn.get('wide16'):
                    amp = scn['wide16']
            raw = g.integers(0, 1 << 16, (max(64, n), max(8, scn['m'])))
            s = raw[:n, :scn['m']] % (amp + 1)
            if td.kind != 'u':
                s = s - amp // 2
            if scn.get('frac') and td.kind == 'f':
                # non-integer samples around an offset: not exactly representable in a narrower float (the Welch reference is exact rational
                # arithmetic on the values as stored, with a forward rounding bound of the requested precision)
                s = (s / 7.0 + scn['frac']) * (scn.get('fscale') or 1)
            p.append(s.astype(td))
        out.append(p)
    return out


def image(scn, samples):
    fr = np_frame(scn['frame'])
    E = samples if fr is None or fr is Ellipsis else samples[:, list(fr) if isinstance(fr, range) else fr]
    return pure_chain(scn['chain'], np.ascontiguousarray(E))


def sums_exact(scn):
    """Every accumulated sum / sum of squares of the frame+preprocess images is an integer below 2^24 (float32) / 2^53 (float64)."""
    lim = (1 << 24) if np.dtype(scn['precision']).itemsize == 4 else (1 << 53)
    tot1 = tot2 = 0.0
    for a, b in make_sets(scn):
        for t, img in ((1, image(scn, a)), (2, image(scn, b))):
            x = np.abs(np.asarray(img, dtype='float64'))
            if x.size and not np.array_equal(x, np.round(x)):
                return False           # fractional samples: sums are rounded
            if x.size and x.max() * x.max() > (1 << 24) and np.asarray(img).dtype == np.float32:
                return False           # the image itself was computed in float32 and may already be rounded
            q = float((x * x).sum(0).max()) if x.size else 0.0
            if t == 1:
                tot1 += q
            else:
                tot2 += q
    return max(tot1, tot2) < lim


# ----------------------------------------------------------------------------- reference

def welch_reference(A, B, precision):
    """Exact rational Welch statistic + forward rounding bound of the requested precision per entry."""
    eps = float(np.finfo(np.dtype(precision)).eps)
    m = A.shape[1]
    ref = np.full(m, np.nan)
    tol = np.full(m, np.inf)
    n1, n2 = A.shape[0], B.shape[0]
    for j in range(m):
        a = [Fraction(float(x)) for x in A[:, j]]
        b = [Fraction(float(x)) for x in B[:, j]]
        s1, q1 = sum(a), sum(x * x for x in a)
        s2, q2 = sum(b), sum(x * x for x in b)
        m1, m2 = s1 / n1, s2 / n2
        v1, v2 = q1 / n1 - m1 * m1, q2 / n2 - m2 * m2
        den2 = v1 / n1 + v2 / n2
        if den2 <= 0:
            continue
        den = float(den2) ** 0.5
        t = float(m1 - m2) / den
        # a sum of n terms accumulated one after the other in the requested precision is off by at most ~n * eps * sum|x| (first order): the
        # constants grow with the number of rows (they were fixed at 8 / 4 while sets had at most 60 rows, never tighter than that now)
        a1, a2 = float(sum(abs(x) for x in a) / n1), float(sum(abs(x) for x in b) / n2)
        g1, g2 = max(8, n1), max(8, n2)
        dv1 = g1 * eps * (float(q1 / n1) + 2 * a1 * a1)
        dv2 = g2 * eps * (float(q2 / n2) + 2 * a2 * a2)
        dden2 = dv1 / n1 + dv2 / n2 + 4 * eps * float(den2)
        dnum = eps * (max(4, n1) * a1 + max(4, n2) * a2)
        if dden2 >= 0.25 * float(den2):
            continue
        ref[j] = t
        tol[j] = 4 * (dnum / den + abs(t) * dden2 / (2 * float(den2)) + 4 * eps * abs(t)) + 1e-300
    return ref, tol


# ----------------------------------------------------------------------------- one execution

def _kernels_to_python(scared):
    """Replace the numba-compiled kernels of scared.ttest by their own Python source (`py_func`).

    A compiled kernel is one atomic step for the scheduler although it releases the GIL: two accumulator threads really overlap inside it.  Run
    from source, the kernel's lines are pre-emption points like any other line under scared/, so interleavings *inside* the kernels are explored
    (state the two accumulators might share there - a work buffer - is then written and read under the scheduler's control).
    """
    saved = []
    mod = sys.modules.get('scared.ttest')
    holders = [mod] if mod is not None else []
    holders += [c for c in getattr(scared.TTestThreadAccumulator, '__mro__', ()) if getattr(c, '__module__', '').startswith('scared')]
    for h in holders:
        for name, raw in list(vars(h).items()):
            f = raw.__func__ if isinstance(raw, (staticmethod, classmethod)) else raw
            py = getattr(f, 'py_func', None)
            if py is None or not callable(py) or not hasattr(f, 'nopython_signatures'):
                continue
            saved.append((h, name, raw))
            setattr(h, name, staticmethod(py) if isinstance(raw, staticmethod) else (classmethod(py) if isinstance(raw, classmethod) else py))
    return saved


def run_schedule(scn, policy=None, schedule=None):
    """Execute all run() calls of the scenario under one scheduling policy / explicit schedule."""
    global SIM
    import numba
    global REPO_PREFIX
    scared = env.boot()
    REPO_PREFIX = os.path.dirname(scared.__file__) + os.sep
    seam = install_thread_seam(scared)
    cb = callbacks()
    nbatch_est = sum(-(-n // (scn['rule'] if isinstance(scn['rule'], int) else 3)) + 2 for pair in scn['sets'] for n in pair)
    cap = 100 * (nbatch_est * 150 + 3000)
    sim = Sim(policy=policy, schedule=schedule, cap=cap, granularity=scn.get('granularity', 'line'))
    sim.faults = copy.deepcopy(scn['faults'])
    sim.injected = []
    sim.pp_calls = {}
    sim.reads = {}
    sim.tag_reads = {}
    sim.run_index = 0
    sim.workers_set = set()
    storage = Storage()

    def on_fetch(kind, tag, ids, key):
        name = tname()
        if name is None:
            return
        if kind == 'samples' and name != 'main':
            if name not in sim.workers_set:
                sim.workers_set.add(name)
                try:
                    numba.set_num_threads(scn['workers'][0 if name.endswith('acc1') else 1])
                except Exception:
                    pass
            c = sim.reads.get(name, 0) + 1
            sim.reads[name] = c
            sim.ev('read', name, tag, int(ids[0]) if len(ids) else -1, int(len(ids)))
            tc = sim.tag_reads.get(tag, 0) + 1
            sim.tag_reads[tag] = tc
            _maybe_read_fault(sim, tag, tc, name)
            st = scn.get('stall')
            if st and name.endswith('acc%d' % st['thread']) and c == st['after_read']:
                sim.stalled[name] = sim.decisions + st['decisions']
                sim.ev('STALL', name, st['decisions'])
        elif kind == 'samples' and name == 'main' and storage.last_sub and not _is_trace_size_probe():
            # a batch of a set read by the thread that called run() (an implementation may accumulate small sets without threads): the read
            # fault is tied to the SET being read, not to the identity of the reading thread
            sim.ev('read', name, tag, int(ids[0]) if len(ids) else -1, int(len(ids)))
            tc = sim.tag_reads.get(tag, 0) + 1
            sim.tag_reads[tag] = tc
            _maybe_read_fault(sim, tag, tc, name)
        sim.yield_point(name, 'fetch ' + kind)
    storage.on_fetch = on_fetch
    if scn.get('rule_flip'):
        rf = scn['rule_flip']
        sim.hooks[rf['at']] = lambda: (scared.set_batch_size(rf['rule']), sim.ev('RULE-FLIP', rf['rule']))
    sets = make_sets(scn)
    pps = [cb[c] for c in scn['chain']]
    main = threading.current_thread()
    outcomes = []
    SIM = sim
    main._sim_name = 'main'
    sim.register('main')
    tt = scared.TTestAnalysis(precision=scn['precision'])
    if isinstance(scn['rule'], list):
        scared.set_batch_size([tuple(x) for x in scn['rule']])
    else:
        scared.set_batch_size(scn['rule'])
    SENT = object()
    swapped = _kernels_to_python(scared) if scn.get('kernel_py') else []
    try:
        with env.clock(env.SimClock()), env.memory(env.SimMemory()):
            for j, (s1, s2) in enumerate(sets):
                sim.run_index = j
                sim.nstart = 0
                ths1 = make_ths(storage, s1, {'p': np.zeros((len(s1), 1), 'uint8')}, 'A%d' % j)
                ths2 = make_ths(storage, s2, {'p': np.zeros((len(s2), 1), 'uint8')}, 'B%d' % j)
                cont = scared.TTestContainer(ths1, ths2, frame=np_frame(scn['frame']), preprocesses=list(pps))
                before = getattr(tt, 'result', SENT)
                cnt_before = acc_counts(tt)
                exc = None
                d0 = sim.decisions
                sys.settrace(global_tracer if seam else None)
                try:
                    tt.run(cont)
                except SimAbort:
                    exc = 'ABORT'
                except BaseException as e:
                    exc = e
                finally:
                    sys.settrace(None)
                after = getattr(tt, 'result', SENT)
                sim.ev('run-returned', j, type(exc).__name__ if exc is not None and exc != 'ABORT' else exc)
                res = None if after is SENT else np.array(after)
                outcomes.append({'exc': exc, 'fresh_result': after is not before, 'result': res, 'decisions': sim.decisions - d0,
                                 'cnt_before': cnt_before, 'sizes': [len(s1), len(s2)]})
                if exc == 'ABORT' or sim.aborted:
                    break
                # drain surviving accumulator threads (not judged)
                if any(v['state'] != 'done' for k, v in sim.threads.items() if k != 'main'):
                    sim.threads['main']['state'] = 'draining'
                    sim.ev('drain')
                    try:
                        sim.block_until_runnable('main')
                    finally:
                        sim.threads['main']['state'] = 'runnable'
                sim.settle()
                outcomes[-1]['cnt_after'] = acc_counts(tt)
    except SimAbort:
        pass
    finally:
        sys.settrace(None)
        for h, name, raw in swapped:
            setattr(h, name, raw)
        main._sim_name = None
        SIM = None
        if sim.aborted:
            # let real threads finish on their own
            for st in sim.threads.values():
                for _ in range(4):
                    st['sem'].release()
            for lbl, obj in sim.objs.items():
                try:
                    threading.Thread.join(obj, timeout=5)
                except Exception:
                    pass
        env.reset_globals()
    fired = [f for f in sim.faults if f.get('fired')]
    mid = 0
    for (what, a, b) in sim.ctx:
        if a != 'main' and b != 'main' and a != b:
            mid += 1
    return {'sim': sim, 'outcomes': outcomes, 'fired': fired, 'injected': sim.injected, 'acc_to_acc_switches': mid,
            'digest': rng.digest([sim.log, sim.ctx]), 'ctx_digest': rng.digest(sim.ctx), 'storage_events': storage.seq}


def acc_counts(tt):
    """processed_traces of the two accumulators (public attributes); None if this tree does not expose them."""
    try:
        accs = list(tt.accumulators)
        if len(accs) == 0:
            return [0, 0]
        return [int(a.processed_traces) for a in accs]
    except Exception:
        return None


def _is_trace_size_probe():
    """Sample reads made while the container measures its trace size / derives its batch size (before any batch) are not batch reads."""
    f = sys._getframe(2)
    for _ in range(60):
        if f is None:
            return False
        if 'trace_size' in f.f_code.co_name or 'batch_size' in f.f_code.co_name:
            return True
        f = f.f_back
    return False


def _maybe_read_fault(sim, tag, count, name):
    for f in sim.faults:
        if f['kind'] == 'storage_read_error' and tag == '%s%d' % ('A' if f['thread'] == 1 else 'B', f['run']) and f['nth'] == count and not f.get('fired'):
            f['fired'] = True
            sim.ev('FAULT', name, 'storage_read_error')
            e = InjectedIOError('injected read error in %s' % name)
            sim.injected.append(e)
            raise e


def viol(oracle, sig, detail):
    return {'oracle': oracle, 'sig': [str(s) for s in sig], 'detail': detail}


def judge(scn, ex, images):
    """Oracles (a), (c), (d) on one execution. images[j] = (A_j, B_j) frame/preprocess images."""
    sim = ex['sim']
    if sim.aborted == 'tracer-error':
        raise RuntimeError('tracer error: %r' % [e for e in sim.log if e[1] == 'TRACER-ERROR'][:1])
    fired = ex['fired']
    if sim.deadlock:
        return viol('deadlock', ['C09', 'deadlock', 'fault' if fired else 'nofault'], 'no runnable thread while main is unfinished; log tail %s' % (sim.log[-6:],))
    if sim.aborted == 'cap':
        if fired:
            return viol('no_termination', ['C09', 'no_termination'], 'run() did not return within %d decisions after the fault fired' % sim.cap)
        raise RuntimeError('decision cap exceeded without faults (cap %d)' % sim.cap)
    inj = ex['injected']
    failed_before = False
    for j, o in enumerate(ex['outcomes']):
        fired_here = [f for f in fired if f['run'] == j]
        o['after_failure'] = failed_before
        if fired_here:
            failed_before = True
            exc = o['exc']
            if exc is None:
                if o['fresh_result']:
                    return viol('failure_not_reraised', ['C09', 'failure_not_reraised', 'result_set', 'repeated' if o['after_failure'] else 'first'],
                                'run %d: %s fired but run() returned normally and set a result' % (j, [f['kind'] for f in fired_here]))
                return viol('failure_not_reraised', ['C09', 'failure_not_reraised', 'no_result', 'repeated' if o['after_failure'] else 'first'],
                            'run %d: fault fired but run() returned normally' % j)
            ok = any(exc is e for e in inj)
            c = exc
            seen = 0
            while not ok and c is not None and seen < 8:
                c = c.__cause__
                ok = any(c is e for e in inj)
                seen += 1
            if not ok:
                return viol('wrong_exception', ['C09', 'wrong_exception', type(exc).__name__, str(exc)[:40]],
                            'run %d: injected %s but run() raised %r (context %r)' % (j, [type(e).__name__ for e in inj], exc, getattr(exc, '__context__', None)))
            if o['fresh_result']:
                return viol('result_despite_failure', ['C09', 'result_despite_failure'], 'run %d raised %r but a fresh result was set' % (j, exc))
            continue
        if failed_before:
            # an earlier run() failed: its accumulators hold a schedule-dependent part of a set, so the *value* of later results is not promised.
            # What "repeated runs accumulate as if the sets were concatenated" still promises for a healthy run is conservation: it returns
            # normally and each accumulator grows by exactly the size of its own set (later failing runs must re-raise, above)
            if o['exc'] is not None:
                return viol('run_raised', ['C09', 'run_raised', type(o['exc']).__name__, 'after_failure'],
                            'run %d raised %r without any injected fault (an earlier run had failed)' % (j, o['exc']))
            cb, ca = o.get('cnt_before'), o.get('cnt_after')
            if cb is not None and ca is not None and len(cb) == 2 and len(ca) == 2:
                grew = [ca[0] - cb[0], ca[1] - cb[1]]
                if grew != o['sizes']:
                    return viol('healthy_run_not_fully_accumulated', ['C09', 'healthy_run_not_fully_accumulated', 'after_failure'],
                                'run %d (no fault, after a failed run): accumulators grew by %s traces, the sets have %s' % (j, grew, o['sizes']))
            continue
        if o['exc'] is not None:
            return viol('run_raised', ['C09', 'run_raised', type(o['exc']).__name__], 'run %d raised %r without any injected fault' % (j, o['exc']))
        A = np.concatenate([images[i][0] for i in range(j + 1)])
        B = np.concatenate([images[i][1] for i in range(j + 1)])
        ref, tol = welch_reference(A, B, scn['precision'])
        got = np.asarray(o['result'], dtype='float64')
        if got.shape != ref.shape:
            return viol('result_shape', ['C09', 'result_shape'], 'run %d: result shape %s expected %s' % (j, got.shape, ref.shape))
        cmpm = np.isfinite(ref)
        bad = cmpm & ~(np.abs(got - ref) <= tol)
        if bad.any():
            i = int(np.argmax(bad))
            return viol('differs_from_welch', ['C09', 'differs_from_welch', 'run%d' % min(j, 1)],
                        'run %d sample %d: got %r, Welch reference %r (bound %.3g); n1=%d n2=%d' % (j, i, float(got[i]), float(ref[i]), float(tol[i]), len(A), len(B)))
    return None


def execute(scn):
    env.boot()
    sets = make_sets(scn)
    images = [(image(scn, a), image(scn, b)) for a, b in sets]
    probes = {}
    faults = {}
    for f in scn['faults']:
        faults.setdefault(f['kind'], [0, 0])[0] += 1
    if scn.get('rule_flip'):
        faults.setdefault('batch_rule_flip', [0, 0])[0] += 1
    if scn.get('stall'):
        faults.setdefault('storage_stall', [0, 0])[0] += 1
    if any(w != 1 for w in scn['workers']):
        faults.setdefault('worker_count_change', [0, 0])[0] += 1
    plans = [{'schedule': s} for s in scn['schedules']] if scn.get('schedules') else [{'policy': p} for p in scn['policies']]
    violation = None
    patch = None
    results = []
    decisions = 0
    ctxs = set()
    digests = []
    nontrivial = False
    first = True
    for plan in plans:
        ex = run_schedule(scn, **plan)
        sim = ex['sim']
        decisions += sim.decisions
        ctxs.add(ex['ctx_digest'])
        digests.append(ex['digest'])
        if first:
            for f in ex['fired']:
                faults[f['kind']][1] += 1
            if any(e[1] == 'RULE-FLIP' for e in sim.log):
                faults['batch_rule_flip'][1] += 1
            if any(e[1] == 'STALL' for e in sim.log):
                faults['storage_stall'][1] += 1
            if 'worker_count_change' in faults and sim.workers_set:
                faults['worker_count_change'][1] += 1
            first = False
        if ex['acc_to_acc_switches']:
            probes['acc_to_acc_switch'] = probes.get('acc_to_acc_switch', 0) + 1
            nontrivial = True
        if ex['fired']:
            nontrivial = True
            other = [k for k, v in sim.threads.items() if k != 'main']
            probes['fault_fired'] = probes.get('fault_fired', 0) + 1
        dn = [e[2] for e in sim.log if e[1] == 'done']
        if dn and dn[0].endswith('acc2'):
            probes['thread2_finishes_first'] = probes.get('thread2_finishes_first', 0) + 1
        v = judge(scn, ex, images)
        if v:
            violation = v
            patch = {'schedules': [{'switches': sim.switches}], 'policies': []}
            break
        results.append(ex)
    if violation is None and len(results) > 1:
        # (b) schedule independence: bitwise the same result under every policy (exact regime)
        base = results[0]
        for ex in results[1:]:
            for j, (o0, o1) in enumerate(zip(base['outcomes'], ex['outcomes'])):
                if o0['result'] is None or o1['result'] is None or o0['exc'] is not None or o1['exc'] is not None:
                    continue
                if o0.get('after_failure') or o1.get('after_failure'):
                    continue
                if not compare.bitwise(o0['result'], o1['result']):
                    violation = viol('schedule_dependent_result', ['C09', 'schedule_dependent_result'],
                                     'run %d: results differ between two schedules: maxdiff=%s' % (j, compare.maxdiff(o0['result'], o1['result'])))
                    patch = {'schedules': [{'switches': base['sim'].switches}, {'switches': ex['sim'].switches}], 'policies': []}
                    break
            if violation:
                break
    out = {'violation': violation, 'inconclusive': False, 'digest': rng.digest(digests), 'case': rng.digest(sorted(ctxs)),
           'nontrivial': nontrivial, 'faults': faults, 'probes': probes, 'sim_time': decisions,
           'counts': {'executions': len(plans) if violation is None else len(results) + 1, 'distinct_interleavings': len(ctxs)}}
    if patch:
        out['scenario_patch'] = patch
    return out


# ----------------------------------------------------------------------------- shrinking

def precondition(scn):
    if not scn['sets'] or any(n < 1 for pair in scn['sets'] for n in pair):
        return False
    if scn['m'] < 1:
        return False
    for f in scn['faults']:
        if f['run'] >= len(scn['sets']):
            return False
    return bool(scn.get('schedules') or scn.get('policies'))


def candidates(scn):
    # fewer runs
    if len(scn['sets']) > 1:
        for j in reversed(range(len(scn['sets']))):
            if any(f['run'] == j for f in scn['faults']):
                continue
            c = copy.deepcopy(scn)
            del c['sets'][j]
            if c.get('tdtypes'):
                del c['tdtypes'][j]
                c['tdtype'] = c['tdtypes'][0]
            for f in c['faults']:
                if f['run'] > j:
                    f['run'] -= 1
            yield c
    # smaller sets
    for j, pair in enumerate(scn['sets']):
        for t in range(2):
            n = pair[t]
            for nn in sorted(set([1, 2, n // 2, n - 1])):
                if 1 <= nn < n:
                    c = copy.deepcopy(scn)
                    c['sets'][j][t] = nn
                    yield c
    if len(scn['faults']) > 1:
        for i in range(len(scn['faults'])):
            c = copy.deepcopy(scn)
            del c['faults'][i]
            yield c
    for key, val in (('chain', []), ('frame', None), ('rule_flip', None), ('stall', None), ('workers', [1, 1]), ('tdtypes', None), ('frac', None), ('wide16', None), ('tdtype', 'uint8'), ('amp', 1)):
        if scn.get(key) != val:
            if key == 'chain' and any(f['kind'] == 'callback_error' for f in scn['faults']):
                continue
            c = copy.deepcopy(scn)
            c[key] = val
            yield c
    if scn['m'] > 1:
        c = copy.deepcopy(scn)
        c['m'] = 1
        if c['frame'] is not None:
            c['frame'] = None
        yield c
    if isinstance(scn['rule'], int) and scn['rule'] < 1000:
        c = copy.deepcopy(scn)
        c['rule'] = 1000
        yield c
    # schedule: fewer switches (explicit schedules only)
    for si, s in enumerate(scn.get('schedules') or []):
        keys = sorted(s['switches'], key=int)
        n = len(keys)
        size = n // 2
        while size >= 1:
            for i in range(0, n, size):
                drop = set(keys[i:i + size])
                c = copy.deepcopy(scn)
                c['schedules'][si]['switches'] = {k: v for k, v in s['switches'].items() if k not in drop}
                yield c
            size //= 2
        # unaligned pairs (there-and-back switches)
        for i in range(1, n - 1, 2):
            drop = set(keys[i:i + 2])
            c = copy.deepcopy(scn)
            c['schedules'][si]['switches'] = {k: v for k, v in s['switches'].items() if k not in drop}
            yield c


def summary(scn):
    s = {k: scn.get(k) for k in ('precision', 'tdtype', 'tdtypes', 'm', 'sets', 'rule', 'frame', 'chain', 'workers', 'rule_flip', 'stall', 'faults', 'granularity')}
    s['policies'] = [p['name'] + (':' + p['victim'] if 'victim' in p else '') for p in scn.get('policies', [])]
    return s
