"""Greedy minimisation: keep a simpler scenario only if the SAME signature reproduces."""
import time


def minimise(eng, scn, sig, budget=300, wall=60):
    t0 = time.time()
    tried = 0
    kept = 0
    best = scn
    improved = True
    while improved and tried < budget and time.time() - t0 < wall:
        improved = False
        for c in eng.candidates(best):
            if tried >= budget or time.time() - t0 > wall:
                break
            try:
                if not eng.precondition(c):
                    continue
            except Exception:
                continue
            tried += 1
            try:
                o = eng.execute(c)
            except Exception:
                continue
            v = o.get('violation')
            if v and v['sig'][:3] == sig[:3]:   # same violation class: (property, oracle, kind)
                best = c
                kept += 1
                improved = True
                break
    return best, {'tried': tried, 'kept': kept, 'wall': time.time() - t0}
