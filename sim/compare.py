"""Equality rules of DESIGN.md section 3."""
import numpy as np


def bitwise(a, b):
    """Same shape, same dtype, same values; NaN equals NaN (positions, not payloads)."""
    a = np.asarray(a)
    b = np.asarray(b)
    if a.shape != b.shape or a.dtype != b.dtype:
        return False
    if a.dtype.kind in 'fc':
        return bool(np.array_equal(a, b, equal_nan=True))
    return bool(np.array_equal(a, b))


def close(a, b, rtol, atol=None):
    """Same shape; NaN/inf pattern equal; finite entries within rtol*|b|+atol."""
    a = np.asarray(a)
    b = np.asarray(b)
    if a.shape != b.shape:
        return False
    if atol is None:
        atol = rtol
    a = a.astype('float64')
    b = b.astype('float64')
    fa = np.isfinite(a)
    fb = np.isfinite(b)
    if not np.array_equal(fa, fb):
        return False
    nf = ~fa
    if nf.any():
        # same kind of non-finite value (nan vs +inf vs -inf)
        if not np.array_equal(np.isnan(a[nf]), np.isnan(b[nf])):
            return False
        inf = nf & ~np.isnan(a)
        if inf.any() and not np.array_equal(np.sign(a[inf]), np.sign(b[inf])):
            return False
    return bool(np.all(np.abs(a[fa] - b[fa]) <= atol + rtol * np.abs(b[fa])))


def maxdiff(a, b):
    a = np.asarray(a, dtype='float64')
    b = np.asarray(b, dtype='float64')
    if a.shape != b.shape:
        return 'shape %s vs %s' % (a.shape, b.shape)
    with np.errstate(all='ignore'):
        d = np.abs(a - b)
        d = d[np.isfinite(d)]
    return float(d.max()) if d.size else 0.0


def tol_for(precision, independent=False):
    """Tolerance of the *requested* precision (DESIGN 3)."""
    p = np.dtype(precision)
    if p.kind != 'f':
        return 0.0
    if independent:
        return 1e-8 if p.itemsize >= 8 else 1e-3
    return 1e-9 if p.itemsize >= 8 else 1e-2


def describe(x):
    x = np.asarray(x)
    return {'shape': list(x.shape), 'dtype': str(x.dtype), 'head': np.asarray(x).ravel()[:6].tolist()}
