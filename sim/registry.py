"""Property -> engine module, tier sizes."""
import importlib

ENGINE_OF = {
    'C01': 'accum', 'C11': 'accum', 'C16': 'c16',
    'C02': 'pipeline', 'C08': 'pipeline', 'C14': 'pipeline',
    'C09': 'ttest', 'C20': 'sync',
}

# fixed run counts per tier (a wall cap exists only as a safety net)
RUNS = {
    'C01': {'quick': 3000, 'thorough': 2000000},
    'C02': {'quick': 4000, 'thorough': 2000000},
    'C08': {'quick': 2000, 'thorough': 300000},
    'C09': {'quick': 8000, 'thorough': 250000},
    'C11': {'quick': 1500, 'thorough': 800000},
    'C14': {'quick': 1500, 'thorough': 150000},
    'C16': {'quick': 3000, 'thorough': 1200000},
    'C20': {'quick': 3000, 'thorough': 600000},
}
WALL_CAP = {'quick': 600, 'thorough': 3000}


def engine_for(prop):
    return importlib.import_module('sim.engines.' + ENGINE_OF[prop])
