"""Property -> engine module, tier sizes."""
import importlib

ENGINE_OF = {
    'C01': 'accum', 'C11': 'accum', 'C16': 'c16',
    'C02': 'pipeline', 'C08': 'pipeline', 'C14': 'pipeline',
    'C09': 'ttest', 'C20': 'sync',
}

# fixed run counts per tier (a wall cap exists only as a safety net)
RUNS = {
    'C01': {'quick': 3000, 'thorough': 2000000},
    'C02': {'quick': 4000, 'thorough': 2000000},
    'C08': {'quick': 2000, 'thorough': 300000},
    'C09': {'quick': 8000, 'thorough': 250000},
    'C11': {'quick': 1500, 'thorough': 800000},
    'C14': {'quick': 1500, 'thorough': 150000},
    'C16': {'quick': 3000, 'thorough': 1200000},
    'C20': {'quick': 3000, 'thorough': 600000},
}
WALL_CAP = {'quick': 600, 'thorough': 3000}


class _Engine:
    """An engine module plus the one knob every engine shares: the floating-point error environment of the run.

    The harness silences numpy's floating-point warnings (env.boot) to keep its own logs readable; a user script runs with numpy's
    defaults (division by zero / invalid value emit RuntimeWarning through the warnings machinery). Code that reacts to those warnings
    would be dead under the harness's setting, so a third of the scenarios run under the defaults ('fperr': 'warn'). The knob is part
    of the scenario (replay files without it mean 'ignore').
    """

    def __init__(self, mod):
        self._m = mod

    def __getattr__(self, name):
        return getattr(self._m, name)

    def generate(self, prop, seed, tier):
        from sim import rng
        scn = self._m.generate(prop, seed, tier)
        if isinstance(scn, dict) and 'fperr' not in scn:
            scn['fperr'] = 'warn' if rng.stream(seed, 'fperr').random() < 0.35 else 'ignore'
        return scn

    def execute(self, scn):
        from sim import env
        with env.fp_env(scn.get('fperr', 'ignore')) as rec:
            o = self._m.execute(scn)
        if rec is not None and isinstance(o, dict):
            # reach: configured = the run had numpy's default environment, fired = a floating-point RuntimeWarning was actually emitted in it
            hit = any(issubclass(w.category, RuntimeWarning) and 'encountered' in str(w.message) for w in rec)
            f = o.setdefault('faults', {})
            f['fp_warning_environment'] = [1, int(hit)]
        return o


def engine_for(prop):
    return _Engine(importlib.import_module('sim.engines.' + ENGINE_OF[prop]))
