"""Process bootstrap: seams are installed here, *before* scared is imported.

- time.process_time  -> dispatcher reading the active SimClock (real clock when none is active)
- psutil.virtual_memory -> dispatcher reading the active SimMemory
- numba kernels: on-disk caching enabled from outside, recording pass-through wrappers
- partitioned._define_lut_func memoised per class list (pure function of its argument)

Nothing in /repo is modified.  A seam that is missing (after a refactor) is reported in
SEAMS and the engines degrade; it is never turned into a violation.
"""
import hashlib
import contextlib
import os
import sys
import time as _time

REPO = os.environ.get('VERIF_REPO', '/repo')
VERIF = os.path.dirname(os.path.dirname(os.path.abspath(__file__)))
GUARD = 'SCARED_VERIF'

SEAMS = {}          # name -> bool (available)
KLOG = []           # kernel identities executed, appended by the wrappers: ('pa'|'tb', 1|2)

_real_process_time = _time.process_time


class _ClockSeam:
    active = None


class _MemSeam:
    active = None


def _process_time():
    c = _ClockSeam.active
    return c.read() if c is not None else _real_process_time()


def tree_hash(repo=None):
    repo = repo or REPO
    h = hashlib.sha256()
    root = os.path.join(repo, 'scared')
    for dp, dn, fn in sorted(os.walk(root)):
        dn.sort()
        for f in sorted(fn):
            if f.endswith('.py'):
                p = os.path.join(dp, f)
                h.update(os.path.relpath(p, root).encode())
                with open(p, 'rb') as fh:
                    h.update(fh.read())
    return h.hexdigest()[:16]


def child_env(extra=None):
    """Environment for every process that imports scared (set before the interpreter starts)."""
    e = dict(os.environ)
    e.update({
        'OPENBLAS_NUM_THREADS': '1', 'MKL_NUM_THREADS': '1', 'OMP_WAIT_POLICY': 'PASSIVE',
        'PYTHONHASHSEED': e.get('VERIF_HASHSEED', '0'), 'PYTHONDONTWRITEBYTECODE': '1',
        GUARD: '1', 'VERIF_CHILD': '1',
        'NUMBA_CACHE_DIR': os.path.join(VERIF, '.cache', 'nb', tree_hash()),
        'PYTHONPATH': VERIF,
    })
    e.pop('PYTHONSTARTUP', None)
    if extra:
        e.update(extra)
    return e


_booted = False


def boot():
    """Install seams and import scared from REPO. Idempotent."""
    global _booted
    if _booted:
        return sys.modules['scared']
    _booted = True
    # never write into the tree under test: numba's cache goes to /verif/.cache (also for ad-hoc interpreters that did not go through
    # child_env), no .pyc files
    sys.dont_write_bytecode = True
    os.environ.setdefault('NUMBA_CACHE_DIR', os.path.join(VERIF, '.cache', 'nb', tree_hash()))
    if REPO not in sys.path:
        sys.path.insert(0, REPO)
    if VERIF not in sys.path:
        sys.path.insert(0, VERIF)
    _time.process_time = _process_time
    import psutil
    real_vm = psutil.virtual_memory

    def virtual_memory():
        m = _MemSeam.active
        return m.virtual_memory() if m is not None else real_vm()
    psutil.virtual_memory = virtual_memory
    import warnings
    warnings.filterwarnings('ignore')
    import numpy as np
    np.seterr(all='ignore')
    import scared
    assert os.path.realpath(scared.__file__).startswith(os.path.realpath(REPO)), (scared.__file__, REPO)
    _install_numba_seams()
    return scared


@contextlib.contextmanager
def fp_env(mode):
    """'warn': numpy's default floating-point error handling and a warnings filter that lets every warning through (recorded, not printed)."""
    if mode != 'warn':
        yield None
        return
    import warnings
    import numpy as np
    with np.errstate(divide='warn', over='warn', under='ignore', invalid='warn'), warnings.catch_warnings(record=True) as rec:
        warnings.simplefilter('always')
        yield rec


def _enable_cache(disp):
    try:
        disp.enable_caching()
        return True
    except Exception:
        return False


def _wrap_kernels(cls, tag):
    import numba
    ok = True
    for idx, name in ((1, '_accumulate_core_1'), (2, '_accumulate_core_2')):
        raw = cls.__dict__.get(name)
        fn = raw.__func__ if isinstance(raw, staticmethod) else raw
        if fn is None or not callable(fn):
            ok = False
            continue
        _enable_cache(fn)

        def make(fn=fn, idx=idx):
            def recording_kernel(*a, **k):
                KLOG.append((tag, idx, numba.get_num_threads()))
                return fn(*a, **k)
            return recording_kernel
        setattr(cls, name, staticmethod(make()))
    return ok


def _cache_all_dispatchers():
    """On-disk caching for every numba dispatcher found in the modules that hold compiled kernels, whatever they are called
    (a refactored tree may have renamed or moved them; without the cache every worker process would compile them again)."""
    try:
        from numba.core.dispatcher import Dispatcher
    except Exception:
        return 0
    n = 0
    for modname in ('scared.distinguishers.partitioned', 'scared.distinguishers.template', 'scared.distinguishers.mia', 'scared.ttest'):
        mod = sys.modules.get(modname)
        if mod is None:
            continue
        objs = list(vars(mod).values())
        for v in list(vars(mod).values()):
            if isinstance(v, type) and getattr(v, '__module__', None) == modname:
                objs.extend(vars(v).values())
        for o in objs:
            f = o.__func__ if isinstance(o, staticmethod) else o
            if isinstance(f, Dispatcher) and not getattr(f, '_verif_cache', False):
                if _enable_cache(f):
                    n += 1
                try:
                    f._verif_cache = True
                except Exception:
                    pass
    return n


def _install_numba_seams():
    from scared.distinguishers import partitioned as P
    SEAMS['dispatchers_cached'] = _cache_all_dispatchers()
    try:
        orig = P._define_lut_func
        cache = {}

        def memo_define_lut_func(partitions):
            import numpy as np
            a = np.asarray(partitions)
            k = (a.dtype.str, a.tobytes())
            if k not in cache:
                cache[k] = orig(partitions)
            return cache[k]
        P._define_lut_func = memo_define_lut_func
        _enable_cache(P._build_lut)
        SEAMS['lut_memo'] = True
    except Exception:
        SEAMS['lut_memo'] = False
    try:
        SEAMS['kernels_partitioned'] = _wrap_kernels(P.PartitionedDistinguisherMixin, 'pa')
    except Exception:
        SEAMS['kernels_partitioned'] = False
    try:
        from scared.distinguishers import template as T
        SEAMS['kernels_template'] = _wrap_kernels(T._TemplateBuildDistinguisherMixin, 'tb')
    except Exception:
        SEAMS['kernels_template'] = False
    try:
        from scared.distinguishers import mia as M
        raw = M.MIADistinguisherMixin.__dict__['_accumulate_core']
        _enable_cache(raw.__func__ if isinstance(raw, staticmethod) else raw)
    except Exception:
        pass
    try:
        from scared import ttest as TT
        raw = TT.TTestThreadAccumulator.__dict__['_update_core']
        _enable_cache(raw.__func__ if isinstance(raw, staticmethod) else raw)
    except Exception:
        pass


class SimClock:
    """Scripted CPU clock. Each kernel call is bracketed by two process_time() reads; the
    script gives the duration of the k-th bracket. Unscripted brackets last `default`."""

    def __init__(self, durations=(), default=1.0, start=100.0):
        self.durs = list(durations)
        self.default = default
        self.t = float(start)
        self.reads = 0
        self.elapsed = 0.0

    def read(self):
        self.reads += 1
        if self.reads % 2 == 0:
            k = self.reads // 2 - 1
            d = self.durs[k] if k < len(self.durs) else self.default
            self.t += d
            self.elapsed += abs(d)
        return self.t


class SimMemory:
    def __init__(self, available=64 * 2 ** 30):
        self.available = available
        self.reads = 0

    def virtual_memory(self):
        self.reads += 1

        class _VM:
            pass
        v = _VM()
        v.available = self.available
        v.total = 64 * 2 ** 30
        return v


class clock:
    """with env.clock(SimClock(...)): ..."""

    def __init__(self, c):
        self.c = c

    def __enter__(self):
        self.prev = _ClockSeam.active
        _ClockSeam.active = self.c
        return self.c

    def __exit__(self, *a):
        _ClockSeam.active = self.prev


class memory:
    def __init__(self, m):
        self.m = m

    def __enter__(self):
        self.prev = _MemSeam.active
        _MemSeam.active = self.m
        return self.m

    def __exit__(self, *a):
        _MemSeam.active = self.prev


def reset_globals():
    """Process-global state back to neutral after every run."""
    import numba
    scared = sys.modules.get('scared')
    if scared is not None:
        scared.set_batch_size(None)
    try:
        numba.set_num_threads(numba.config.NUMBA_NUM_THREADS)
    except Exception:
        pass
    _ClockSeam.active = None
    _MemSeam.active = None
    del KLOG[:]
