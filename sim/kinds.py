"""Uniform adapters around scared's distinguisher objects (real code inside, nothing stubbed).

Every adapter exposes update(traces, data), compute() -> dict name -> ndarray, count().
Only public attributes / return values are read.
"""
import numpy as np

from . import env

KINDS_ALL = ['cpa', 'cpaalt', 'dpa', 'anova', 'nicv', 'snr', 'mia', 'tbuild', 'tstatic', 'tdpa', 'ttacc']
PARTITIONED = ('anova', 'nicv', 'snr')
CLASS_BASED = ('anova', 'nicv', 'snr', 'mia', 'tbuild')
ONE_WORD = ('tbuild', 'tstatic', 'tdpa')


class Unavailable(Exception):
    """A private seam the adapter needs is gone: the engine degrades, never alarms."""


class Adapter:
    bitwise_result = True      # result comparable bitwise in the exact regime

    def update(self, traces, data):
        return self.obj.update(traces, data)

    def compute(self):
        return {'result': self.obj.compute()}

    def count(self):
        return self.obj.processed_traces


class Plain(Adapter):
    def __init__(self, obj):
        self.obj = obj


class TBuild(Adapter):
    def compute(self):
        r = self.obj.compute()
        out = {'result': r, 'pooled_covariance': np.array(self.obj.pooled_covariance)}
        try:
            # the third output of a build, the one matching uses (a lazily cached inverse that goes stale would only show here)
            out['pooled_covariance_inv'] = np.array(self.obj.pooled_covariance_inv)
        except AttributeError:
            pass
        return out


class TMatch(Adapter):
    bitwise_result = False

    def __init__(self, obj):
        self.obj = obj

    def update(self, traces, data):
        return self.obj.update(traces=traces, data=data)


class TTAcc(Adapter):
    def __init__(self, obj):
        self.obj = obj

    def update(self, traces, data):
        return self.obj.update(traces)

    def compute(self):
        self.obj.compute()
        return {'result': np.stack([np.asarray(self.obj.mean), np.asarray(self.obj.var)])}


_TB = None


def _tb_class():
    global _TB
    if _TB is None:
        scared = env.boot()
        try:
            from scared.distinguishers import partitioned as P, template as T
            mixin = getattr(T, '_TemplateBuildDistinguisherMixin', None)
            if mixin is None:
                # renamed by a refactoring: take it from the builder object of a public TemplateAttack (first class of its MRO that is
                # defined in scared.distinguishers.template)
                from estraces import read_ths_from_ram
                ths = read_ths_from_ram(np.zeros((4, 2), 'float32'), value=np.zeros((4, 1), 'uint8'))
                att = scared.TemplateAttack(container_building=scared.Container(ths), reverse_selection_function=scared.reverse_selection_function(_value_sf),
                                            model=scared.Value(), partitions=[0, 1])
                mixin = [c for c in type(att._build_analysis).__mro__ if c.__module__ == T.__name__][0]

            class TB(P.PartitionedDistinguisherBase, mixin):
                pass
            _TB = TB
        except Exception as e:
            raise Unavailable('template build mixin: %r' % (e,))
    return _TB


def build_set(spec):
    """Deterministic building set for the template-matching kinds.
    spec: {'classes': [...], 'L': int, 'seed': int, 'per_class': int}"""
    classes = list(spec['classes'])
    k = len(classes)
    L = spec['L']
    per = spec.get('per_class', 6)
    g = np.random.Generator(np.random.PCG64(spec['seed']))
    nb = per * k
    vals = np.array([classes[i % k] for i in range(nb)], dtype='uint8')
    pos = np.array([i % k for i in range(nb)], dtype='float64')
    gains = g.uniform(0.5, 2.0, L)
    noise = np.round(g.standard_normal((nb, L)) * 8) / 8
    T = (pos[:, None] * gains + noise).astype('float64')
    return T, vals


def make(kind, precision, classes=None, extra=None):
    """Fresh object of the kind. classes None = automatic class set."""
    scared = env.boot()
    extra = extra or {}
    if kind == 'cpa':
        return Plain(scared.CPADistinguisher(precision=precision))
    if kind == 'cpaalt':
        return Plain(scared.CPAAlternativeDistinguisher(precision=precision))
    if kind == 'dpa':
        return Plain(scared.DPADistinguisher(precision=precision))
    if kind in PARTITIONED:
        K = {'anova': scared.ANOVADistinguisher, 'nicv': scared.NICVDistinguisher, 'snr': scared.SNRDistinguisher}[kind]
        return Plain(K(partitions=classes, precision=precision))
    if kind == 'mia':
        edges = np.linspace(extra.get('lo', 0), extra.get('hi', 16), extra.get('bins', 4) + 1)
        kw = {}
        if extra.get('mia_precision'):
            kw['precision'] = extra['mia_precision']
        if extra.get('auto_edges'):
            # bin edges taken from the first accumulated batch (only used where the twin receives the very same calls: C16)
            return Plain(scared.MIADistinguisher(bins_number=extra.get('bins', 4), partitions=classes, **kw))
        return Plain(scared.MIADistinguisher(bin_edges=edges, partitions=classes, **kw))
    if kind == 'tbuild':
        return _mk_tbuild(classes, precision)
    if kind in ('tstatic', 'tdpa'):
        return make_template_attack(kind, precision, extra['build'], built=extra.get('built', True))
    if kind == 'ttacc':
        return TTAcc(scared.TTestThreadAccumulator(precision=np.dtype(precision)))
    raise KeyError(kind)


def _mk_tbuild(classes, precision):
    a = TBuild()
    a.obj = _tb_class()(partitions=classes, precision=precision)
    return a


def make_template_attack(kind, precision, build, built=True, convergence_step=None, building_ths=None):
    """A TemplateAttack / TemplateDPAAttack object over a RAM building set (public path)."""
    scared = env.boot()
    from estraces import read_ths_from_ram
    T, vals = build_set(build)
    classes = list(build['classes'])
    ths = building_ths if building_ths is not None else read_ths_from_ram(T.astype(build.get('dtype', 'float64')), value=vals[:, None].copy())
    rsf = scared.reverse_selection_function(_value_sf)
    k = len(classes)
    if kind == 'tstatic':
        att = scared.TemplateAttack(container_building=scared.Container(ths), reverse_selection_function=rsf,
                                    model=scared.Value(), partitions=classes, precision=precision,
                                    convergence_step=convergence_step)
    else:
        asf = scared.attack_selection_function(_make_leak_sf(classes), guesses=range(k), words=0)
        att = scared.TemplateDPAAttack(container_building=scared.Container(ths), reverse_selection_function=rsf,
                                       selection_function=asf, model=scared.Value(), partitions=classes,
                                       precision=precision, convergence_step=convergence_step)
    a = TMatch(att)
    if built:
        att.build()
    return a


def _value_sf(value):
    return value


def leak(classes, p, g, dtype='uint8'):
    k = len(classes)
    c = np.asarray(classes)
    return c[(p.astype('int64') + int(g)) % k].astype(dtype)


def _make_leak_sf(classes, dtype='uint8'):
    def leak_sf(plaintext, guesses):
        return np.stack([leak(classes, plaintext[:, 0], g, dtype) for g in guesses], 1)[:, :, None]
    return leak_sf
