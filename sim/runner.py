"""Check driver: spawns fresh-interpreter workers, aggregates, minimises, writes evidence.

Exit codes: 0 property held on everything explored (KNOWN-FINDING lines allowed),
            1 violation not listed in known_findings.json (VIOLATION line printed),
            2 harness error (HARNESS-ERROR line printed) - never disguised as 0 or 1.
"""
import argparse
import collections
import json
import os
import re
import shutil
import subprocess
import sys
import time

VERIF = os.path.dirname(os.path.dirname(os.path.abspath(__file__)))
sys.path.insert(0, VERIF)

from sim import env, registry, rng  # noqa: E402

PY = sys.executable
REAL_STUB = {
    'real': ['all of scared (unmodified source tree at VERIF_REPO)', 'compiled numba kernels and their OpenMP workers',
             'numpy/BLAS (1 thread)', 'estraces TraceHeaderSet/Samples/Metadatas', 'threading.Thread objects (C09)',
             'ETSWriter + h5py + a real file on tmpfs (C20)'],
    'stub': ['trace storage reader (SimReader)', 'time.process_time (SimClock)', 'psutil.virtual_memory (SimMemory)',
             'OS scheduling of the t-test threads (baton scheduler)', 'user callbacks (preprocess / selection function / synchronizer function)'],
}


def load_known():
    p = os.path.join(VERIF, 'known_findings.json')
    if not os.path.exists(p):
        return []
    return json.load(open(p)).get('findings', [])


def sig_matches(pattern, sig):
    if len(pattern) > len(sig):
        return False
    return all(re.fullmatch(p, s) is not None for p, s in zip(pattern, sig))


def run_workers(prop, tier, vseed, n, W, cap, scratch, hashseed='0', indices=None, tag='w'):
    procs = []
    e = env.child_env({'NUMBA_NUM_THREADS': '16', 'PYTHONHASHSEED': hashseed})
    if indices is not None:
        f = os.path.join(scratch, '%s.indices' % tag)
        open(f, 'w').write(' '.join(map(str, indices)))
        e['VERIF_INDICES_FILE'] = f
        W = 1
    for k in range(W):
        out = os.path.join(scratch, '%s%d.jsonl' % (tag, k))
        log = open(os.path.join(scratch, '%s%d.log' % (tag, k)), 'w')
        p = subprocess.Popen([PY, os.path.join(VERIF, 'sim', 'worker.py'), 'run', prop, tier, str(vseed), str(k), str(W), str(n), out, str(cap)],
                             env=e, stdout=log, stderr=subprocess.STDOUT, cwd=VERIF)
        procs.append((p, out, log))
    return procs


def missing_indices(failed, n, W):
    """Indices a crashed / timed-out worker did not report (work is index-assigned: worker k owns k, k+W, ... in order)."""
    miss = []
    for k, cnt in failed:
        miss.extend(range(k + cnt * W, n, W))
    return sorted(miss)


def collect(procs, deadline, on_rec):
    """Wait for the workers and stream their records into on_rec (nothing is kept in memory here)."""
    errors = []
    truncated = False
    failed = []
    for widx, (p, out, log) in enumerate(procs):
        try:
            rc = p.wait(timeout=max(1, deadline - time.time()))
        except subprocess.TimeoutExpired:
            p.kill()
            p.wait()
            rc = 'timeout'
        log.close()
        done = False
        cnt = 0
        if os.path.exists(out):
            for line in open(out):
                try:
                    r = json.loads(line)
                except Exception:
                    continue
                if r.get('done'):
                    done = True
                elif 'truncated_at' in r:
                    truncated = True
                elif 'i' in r:
                    cnt += 1
                    on_rec(r)
        if rc != 0 or not done:
            failed.append((widx, cnt))
            tail = ''
            try:
                tail = open(log.name).read()[-1500:]
            except Exception:
                pass
            errors.append('worker %s exit=%s done=%s log tail: %s' % (os.path.basename(out), rc, done, tail))
    return errors, truncated, failed


class Agg:
    """Streaming aggregation of run records (a thorough tier has millions of them)."""

    def __init__(self, ndet, n):
        self.ndet = ndet
        self.evaluations = 0
        self.cases = set()
        self.digests = set()
        self.faults = collections.OrderedDict()
        self.probes = collections.Counter()
        self.sim_time = 0.0
        self.inconclusive = 0
        self.degraded = collections.Counter()
        self.extras = collections.Counter()
        self.kernel_seqs = set()
        self.viols = []
        self.first_digest = {}
        self.errors = []
        self.samples = {}
        self.sample_idx = set([0, 1, n // 2, n // 2 + 1, n - 1])

    def add(self, r):
        self.evaluations += 1
        if r.get('harness_error'):
            if len(self.errors) < 20:
                self.errors.append('run %d (seed %d): %s\n%s' % (r['i'], r['seed'], r['harness_error'], r.get('traceback', '')[-800:]))
            return
        if r['i'] < self.ndet:
            self.first_digest[r['i']] = (r.get('digest'), bool(r.get('violation')))
        if r['i'] in self.sample_idx:
            self.samples[r['i']] = {'i': r['i'], 'seed': r['seed'], 'case': r.get('summary')}
        if r.get('nontrivial') and 'case' in r:
            self.cases.add(r['case'])
        for k, v in (r.get('faults') or {}).items():
            c = self.faults.setdefault(k, [0, 0])
            c[0] += v[0]
            c[1] += v[1]
        self.probes.update(r.get('probes') or {})
        self.sim_time += r.get('sim_time') or 0
        self.inconclusive += int(bool(r.get('inconclusive')))
        if r.get('degraded'):
            self.degraded[r['degraded']] += 1
        if r.get('kernel_seq'):
            self.kernel_seqs.add(r['kernel_seq'])
        for q in r.get('kernel_seqs') or []:
            self.kernel_seqs.add(q)
        if 'digest' in r:
            self.digests.add(r['digest'])
        for k, v in (r.get('counts') or {}).items():
            self.extras[k] += v
        if r.get('violation'):
            self.viols.append(r)


def main(argv=None):
    ap = argparse.ArgumentParser()
    ap.add_argument('prop')
    ap.add_argument('--tier', default=os.environ.get('VERIF_TIER', 'quick'))
    ap.add_argument('--runs', type=int, default=None)
    ap.add_argument('--workers', type=int, default=int(os.environ.get('VERIF_WORKERS', '0')) or min(16, os.cpu_count() or 1))
    ap.add_argument('--no-evidence', action='store_true')
    ap.add_argument('--no-shrink', action='store_true')
    a = ap.parse_args(argv)
    prop, tier = a.prop, a.tier
    if tier not in ('quick', 'thorough'):
        tier = 'quick'
    try:
        vseed = int(os.environ.get('VERIF_SEED', '0'))
    except ValueError:
        vseed = rng.H(os.environ['VERIF_SEED'])
    n = a.runs or int(os.environ.get('VERIF_RUNS', '0')) or registry.RUNS[prop][tier]
    cap = float(os.environ.get('VERIF_WALL_CAP', registry.WALL_CAP[tier]))
    W = max(1, min(a.workers, n))
    t0 = time.time()
    print('check property=%s tier=%s VERIF_SEED=%d runs=%d workers=%d repo=%s tree=%s' % (prop, tier, vseed, n, W, env.REPO, env.tree_hash()))
    sys.stdout.flush()
    scratch = os.path.join(VERIF, '.cache', 'run', '%s-%s-%d' % (prop, tier, os.getpid()))
    shutil.rmtree(scratch, ignore_errors=True)
    os.makedirs(scratch)
    prune_numba_cache()
    warm(prop, tier)
    procs = run_workers(prop, tier, vseed, n, W, cap, scratch)
    ndet = min(3, n)
    det = run_workers(prop, tier, vseed, n, 1, cap, scratch, hashseed='4242', indices=list(range(ndet)), tag='det')
    deadline = time.time() + cap + 300
    agg = Agg(ndet, n)
    errors, truncated, failed = collect(procs, deadline, agg.add)
    retries = 0
    miss = missing_indices(failed, n, W) if failed else []
    while miss and retries < 2 and not truncated:
        # a worker process died or hit the per-run watchdog (seen once under heavy machine load): its unreported share is executed again in a
        # fresh interpreter - same indices, same seeds, so the outcome of the check does not depend on it.  A reproducible hang fails again.
        retries += 1
        print('worker failure (%s); re-running %d unreported runs in a fresh interpreter (attempt %d)' % (
            '; '.join(e.split(' log tail')[0] for e in errors[:3]), len(miss), retries))
        sys.stdout.flush()
        rp = run_workers(prop, tier, vseed, n, 1, cap, scratch, indices=miss, tag='retry%d' % retries)
        errors, truncated2, failed2 = collect(rp, time.time() + cap + 300, agg.add)
        truncated = truncated or truncated2
        miss = miss[failed2[0][1]:] if failed2 else []
    if failed and not miss and not truncated:
        errors = [e for e in errors if not e.startswith('worker ')]
    drecs = []
    derrors, _, dfailed = collect(det, deadline, drecs.append)
    if dfailed:
        # the determinism re-check is a self-test of the harness: re-run it once before calling it an error
        det2 = run_workers(prop, tier, vseed, n, 1, cap, scratch, hashseed='4242', indices=list(range(ndet)), tag='det2')
        drecs = []
        derrors, _, dfailed = collect(det2, time.time() + cap + 300, drecs.append)
        retries += 1
    errors += derrors + agg.errors
    # determinism self-check: same seeds in another fresh interpreter under another hash seed
    det_checked = 0
    for d in drecs:
        m = agg.first_digest.get(d['i'])
        if m is None or m[0] is None or 'digest' not in d:
            continue
        det_checked += 1
        if m[0] != d['digest'] or m[1] != bool(d.get('violation')):
            errors.append('nondeterminism: run %d digest %s vs %s in a second interpreter' % (d['i'], m[0], d['digest']))
    evaluations = agg.evaluations
    cases, faults, probes, sim_time, inconclusive = agg.cases, agg.faults, agg.probes, agg.sim_time, agg.inconclusive
    degraded, extras, kernel_seqs, digests, viols = agg.degraded, agg.extras, agg.kernel_seqs, agg.digests, agg.viols
    viols.sort(key=lambda r: r['i'])
    wall = time.time() - t0
    # ---- violations vs known findings
    known = [k for k in load_known() if k['property'] == prop]
    open_known = [k for k in known if k.get('status', 'open') == 'open']
    groups = collections.OrderedDict()
    for r in viols:
        groups.setdefault(tuple(r['violation']['sig']), []).append(r)
    unlisted = collections.OrderedDict()
    known_hits = collections.Counter()
    for sig, rs in groups.items():
        hit = None
        for kf in open_known:
            if sig_matches(kf['signature'], list(sig)):
                hit = kf
                break
        if hit is not None:
            known_hits[hit['id']] += len(rs)
        else:
            unlisted[sig] = rs
    for kf in open_known:
        print('KNOWN-FINDING: property=%s %s (observed %d times in this run)' % (prop, kf['what'], known_hits.get(kf['id'], 0)))
    replay_paths = []
    if unlisted:
        os.makedirs(os.path.join(VERIF, 'replays'), exist_ok=True)
        for j, (sig, rs) in enumerate(unlisted.items()):
            if j >= 12:
                print('... and %d more violation signatures (not written out)' % (len(unlisted) - 12))
                break
            r = rs[0]
            path = os.path.join(VERIF, 'replays', '%s-%d-%d.json' % (prop, vseed, r['i']))
            rep = {'property': prop, 'engine': registry.ENGINE_OF[prop], 'found': {'verif_seed': vseed, 'index': r['i'], 'run_seed': r['seed'], 'tier': tier},
                   'scenario': r['scenario'], 'expect': {'signature': list(sig), 'digest': r.get('digest')},
                   'detail': r['violation']['detail'], 'occurrences_in_run': len(rs), 'minimised': False}
            if not a.no_shrink and j < 6:
                try:
                    inp = os.path.join(scratch, 'shrink_in_%d.json' % j)
                    outp = os.path.join(scratch, 'shrink_out_%d.json' % j)
                    json.dump({'scenario': r['scenario'], 'sig': list(sig)}, open(inp, 'w'))
                    subprocess.run([PY, os.path.join(VERIF, 'sim', 'worker.py'), 'shrink', inp, outp],
                                   env=env.child_env({'NUMBA_NUM_THREADS': '16'}), cwd=VERIF, timeout=1000,
                                   stdout=open(os.path.join(scratch, 'shrink_%d.log' % j), 'w'), stderr=subprocess.STDOUT)
                    sh = json.load(open(outp))
                    v = sh['outcome'].get('violation')
                    if v and v['sig'][:3] == list(sig)[:3]:
                        rep['original_scenario'] = r['scenario']
                        rep['expect']['signature'] = v['sig']
                        rep['scenario'] = sh['scenario']
                        rep['expect']['digest'] = sh['outcome'].get('digest')
                        rep['detail'] = v['detail']
                        rep['minimised'] = True
                        rep['shrink_stats'] = sh['stats']
                except Exception as e:
                    rep['shrink_error'] = repr(e)
            json.dump(rep, open(path, 'w'), indent=1, default=str)
            replay_paths.append(path)
            print('violation: %s  x%d  %s' % (list(sig), len(rs), rep['detail'][:400]))
            print('VIOLATION property=%s replay=%s' % (prop, path))
    # ---- evidence
    samples = [agg.samples[i] for i in sorted(agg.samples)]
    eng = registry.engine_for(prop)
    ev = {
        'property_id': prop, 'tier': tier, 'seed': vseed, 'level': 'exploration',
        'coverage': {
            'evaluations': evaluations,
            'distinct_nontrivial': len(cases),
            'rule': getattr(eng, 'RULE', {}).get(prop, ''),
            'samples': samples,
            'runs_requested': n, 'truncated_by_wall_cap': truncated,
            'runs_per_hour': int(evaluations / max(wall, 1e-9) * 3600),
            'simulated_time': {'value': sim_time, 'unit': getattr(eng, 'SIM_TIME_UNIT', {}).get(prop, 'operations')},
            'fault_kinds': {k: {'configured': v[0], 'fired': v[1]} for k, v in faults.items()},
            'probes': dict(sorted(probes.items())),
            'distinct_event_log_digests': len(digests),
            'kernel_sequences_distinct': len(kernel_seqs),
            'kernel_sequences_sample': sorted(kernel_seqs, key=lambda s: (len(s), s))[:40],
            'inconclusive_runs': inconclusive,
            'degraded': dict(degraded),
            'counts': dict(extras),
            'determinism_recheck': {'runs_recomputed_in_second_interpreter_other_hashseed': det_checked},
            'worker_retries': retries,
            'real_vs_stub': REAL_STUB,
            'workers': W, 'tree_hash': env.tree_hash(), 'repo': env.REPO,
            'known_findings_observed': dict(known_hits),
            'violation_signatures': [list(s) for s in unlisted],
        },
        'assumptions': getattr(eng, 'ASSUMPTIONS', {}).get(prop, []),
        'wall_s': round(wall, 2),
        'violations': sum(len(v) for v in unlisted.values()),
    }
    if not a.no_evidence:
        os.makedirs(os.path.join(VERIF, 'evidence'), exist_ok=True)
        json.dump(ev, open(os.path.join(VERIF, 'evidence', prop + '.json'), 'w'), indent=1, default=str)
    print('runs=%d distinct_nontrivial=%d inconclusive=%d violations=%d(unlisted) known=%d wall=%.1fs runs/h=%d' % (
        evaluations, len(cases), inconclusive, ev['violations'], sum(known_hits.values()), wall, ev['coverage']['runs_per_hour']))
    if faults:
        print('faults fired: ' + ', '.join('%s=%d/%d' % (k, v[1], v[0]) for k, v in faults.items()))
    if not os.environ.get('VERIF_KEEP_SCRATCH'):
        shutil.rmtree(scratch, ignore_errors=True)
    if unlisted:
        return 1
    if errors:
        for e in errors[:5]:
            print('HARNESS-ERROR ' + e)
        return 2
    if evaluations < n and not truncated:
        print('HARNESS-ERROR only %d of %d runs reported' % (evaluations, n))
        return 2
    return 0


WARM_KINDS = {'C01': 'anova,tbuild,ttacc,mia', 'C11': 'anova,tbuild,ttacc,mia', 'C16': 'anova,tbuild,ttacc,mia', 'C02': 'anova,mia', 'C08': 'anova,mia,tbuild',
              'C14': 'tbuild', 'C09': 'ttacc', 'C20': ''}


def warm(prop, tier):
    """Compile the numba signatures once (per tree hash) before 16 workers would each do it."""
    kinds_ = WARM_KINDS.get(prop, '')
    if not kinds_:
        return
    e = env.child_env({'NUMBA_NUM_THREADS': '16'})
    full = tier == 'thorough' and prop in ('C01', 'C11', 'C16', 'C09', 'C02', 'C08')
    marker = os.path.join(e['NUMBA_CACHE_DIR'], 'warm3-%s-%s' % (kinds_.replace(',', '_'), 'full' if full else 'quick'))
    if os.path.exists(marker):
        return
    t0 = time.time()
    cmd = [PY, os.path.join(VERIF, 'tools', 'warm.py'), '--kinds', kinds_] + (['--full'] if full else [])
    subprocess.run(cmd, env=e, cwd=VERIF, stdout=subprocess.DEVNULL, stderr=subprocess.DEVNULL, timeout=1800)
    os.makedirs(e['NUMBA_CACHE_DIR'], exist_ok=True)
    open(marker, 'w').write('ok')
    print('numba cache warmed for this tree in %.0fs' % (time.time() - t0))
    sys.stdout.flush()


def prune_numba_cache(keep=3):
    root = os.path.join(VERIF, '.cache', 'nb')
    try:
        ds = sorted((os.path.getmtime(os.path.join(root, d)), d) for d in os.listdir(root))
    except OSError:
        return
    cur = env.tree_hash()
    for _, d in ds[:-keep]:
        if d != cur:
            shutil.rmtree(os.path.join(root, d), ignore_errors=True)


if __name__ == '__main__':
    sys.exit(main())
