"""In-process fake trace storage behind estraces' reader interface (the storage seam).

Every fetch is a recorded event with a global sequence number, a fault site and (for the
thread simulation) a yield point - all through the Storage.on_fetch callback the engine sets.
"""
import numpy as np
from estraces.traces.abstract_reader import AbstractReader


class Storage:
    """Shared by all readers of one run."""

    def __init__(self):
        self.events = []
        self.seq = 0
        self.on_fetch = None        # callable(kind, tag, ids, key) -> may raise (fault) or yield (scheduler)
        self.last_sub = False
        self.harness_error = None
        self.counts = {}

    def event(self, *a):
        self.seq += 1
        self.events.append((self.seq,) + a)

    def fetch(self, kind, tag, ids, key=None):
        c = self.counts
        c[(kind, tag)] = c.get((kind, tag), 0) + 1
        self.event(kind, tag, int(ids[0]) if len(ids) else -1, int(len(ids)), key)
        if self.on_fetch is not None:
            try:
                self.on_fetch(kind, tag, ids, key)
            except Exception as e:
                # only injected faults may come out of the seam; anything else is a bug of the harness itself and must end as HARNESS-ERROR,
                # never as a violation of the system under test
                if not type(e).__name__.startswith('Injected'):
                    self.harness_error = e
                raise


def _np_index(frame):
    if frame is None or frame is Ellipsis:
        return slice(None)
    if isinstance(frame, range):
        return list(frame)
    if isinstance(frame, int):
        return [frame]
    return frame


class SimReader(AbstractReader):

    def __init__(self, storage, samples, meta, tag, ids=None):
        self._storage = storage
        self._samples = samples
        self._meta = meta
        self._tag = tag
        self._ids = np.arange(len(samples)) if ids is None else ids
        self._size = len(self._ids)

    def fetch_samples(self, traces, frame=None):
        if isinstance(traces, (int, np.integer)):
            traces = [int(traces)]
        if isinstance(traces, range):
            traces = list(traces)
        ids = self._ids[traces]
        self._storage.last_sub = getattr(self, '_sub', False)     # read through a sub-set (ths[slice]: a batch) or through the whole set (a probe)
        self._storage.fetch('samples', self._tag, ids)
        if len(ids) and np.array_equal(ids, np.arange(ids[0], ids[0] + len(ids))):
            r = self._samples[int(ids[0]):int(ids[0]) + len(ids)]      # a VIEW of the stored samples, as estraces' RAM reader gives: code that
            #                                                            works in place on a batch damages the storage, and later reads show it
        else:
            r = self._samples[ids]
        r = r[:, _np_index(frame)]
        return np.ascontiguousarray(r)

    def fetch_metadatas(self, key, trace_id=None):
        if trace_id is not None:
            ids = self._ids[[trace_id]]
            self._storage.fetch('meta1', self._tag, ids, key)
            return self._meta[key][ids[0]]
        self._storage.fetch('meta', self._tag, self._ids, key)
        return self._meta[key][self._ids]

    def fetch_header(self, key):
        raise KeyError(key)

    def __getitem__(self, key):
        super().__getitem__(key)
        child = SimReader(self._storage, self._samples, self._meta, self._tag, self._ids[key])
        child._sub = True
        return child

    @property
    def metadatas_keys(self):
        return self._meta.keys()

    @property
    def headers_keys(self):
        return {}.keys()

    def get_trace_size(self, trace_id):
        return self._samples.shape[1]

    def __repr__(self):
        return 'SimReader(%s, %d traces)' % (self._tag, self._size)


def make_ths(storage, samples, meta, tag):
    from estraces import build_trace_header_set
    # the reader owns a private copy: what the harness computes its expectations from is never aliased by the system under test
    return build_trace_header_set(SimReader(storage, np.array(samples, copy=True), {k: np.array(v, copy=True) for k, v in meta.items()}, tag), name=tag)
