"""Replay a violation file in a fresh interpreter: must reproduce signature and event-log digest exactly.

exit 1 + VIOLATION line: reproduced; exit 0: the scenario no longer violates; exit 3: it violates differently.
"""
import json
import os
import subprocess
import sys

VERIF = os.path.dirname(os.path.dirname(os.path.abspath(__file__)))
sys.path.insert(0, VERIF)
from sim import env  # noqa: E402


def main():
    path = os.path.abspath(sys.argv[1])
    rep = json.load(open(path))
    p = subprocess.run([sys.executable, os.path.join(VERIF, 'sim', 'worker.py'), 'exec', path],
                       env=env.child_env({'NUMBA_NUM_THREADS': '16'}), cwd=VERIF, capture_output=True, text=True, timeout=1200)
    if p.returncode != 0:
        print('HARNESS-ERROR replay failed: ' + p.stderr[-2000:])
        return 2
    o = json.loads(p.stdout.strip().splitlines()[-1])
    v = o.get('violation')
    exp = rep.get('expect', {})
    print('expected signature: %s digest %s' % (exp.get('signature'), exp.get('digest')))
    print('observed signature: %s digest %s' % (v['sig'] if v else None, o.get('digest')))
    if not v:
        print('no violation on this tree')
        return 0
    print('detail: ' + v['detail'][:1000])
    if v['sig'] == exp.get('signature'):
        same = o.get('digest') == exp.get('digest')
        print('reproduced (%s event log)' % ('identical' if same else 'DIFFERENT'))
        print('VIOLATION property=%s replay=%s' % (rep['property'], path))
        return 1
    print('violates with a different signature')
    print('VIOLATION property=%s replay=%s' % (rep['property'], path))
    return 3


if __name__ == '__main__':
    sys.exit(main())
