"""Seed derivation: one integer decides everything.

VERIF_SEED -> per-run seed H(VERIF_SEED, property, i) -> named sub-streams H(run seed, name).
Nothing here reads a clock or any process state.
"""
import hashlib
import random


def H(*parts):
    """63-bit integer derived from the parts (ints / strings), stable across processes."""
    h = hashlib.sha256(('\x1f'.join(str(p) for p in parts)).encode()).digest()
    return int.from_bytes(h[:8], 'big') >> 1


def run_seed(verif_seed, prop, index):
    return H('run', verif_seed, prop, index)


def stream(seed, name):
    """Independent python PRNG for a named sub-stream of a run seed."""
    return random.Random(H('stream', seed, name))


def np_stream(seed, name):
    import numpy as np
    return np.random.Generator(np.random.PCG64(H('np', seed, name)))


def digest(obj):
    """Stable short digest of a JSON-able object."""
    import json
    return hashlib.sha256(json.dumps(obj, sort_keys=True, separators=(',', ':'), default=str).encode()).hexdigest()[:16]
