"""Worker process: a fresh interpreter that executes a fixed, index-assigned share of the runs.

usage: worker.py run <prop> <tier> <verif_seed> <k> <W> <n_runs> <out.jsonl> [wall_cap_s]
       worker.py exec <scenario.json>          (one scenario; prints outcome JSON)
       worker.py shrink <in.json> <out.json>   (minimise a violating scenario)
Work is assigned by run index (i % W == k), never by completion time.
"""
import faulthandler
import json
import os
import sys
import time

sys.path.insert(0, os.path.dirname(os.path.dirname(os.path.abspath(__file__))))

from sim import registry, rng  # noqa: E402

RUN_TIMEOUT = int(os.environ.get('VERIF_RUN_TIMEOUT', '300'))


def jdefault(o):
    import numpy as np
    if isinstance(o, (np.integer,)):
        return int(o)
    if isinstance(o, (np.floating,)):
        return float(o)
    if isinstance(o, np.ndarray):
        return o.tolist()
    return str(o)


def rss_mb():
    try:
        with open('/proc/self/statm') as fh:
            return int(fh.read().split()[1]) * os.sysconf('SC_PAGE_SIZE') // (1 << 20)
    except Exception:
        return 0


def cmd_run(argv):
    prop, tier, vseed, k, W, n, out = argv[0], argv[1], int(argv[2]), int(argv[3]), int(argv[4]), int(argv[5]), argv[6]
    cap = float(argv[7]) if len(argv) > 7 else 1e9
    indices = None
    if os.environ.get('VERIF_INDICES'):
        indices = [int(x) for x in os.environ['VERIF_INDICES'].split(',')]
    if os.environ.get('VERIF_INDICES_FILE'):
        indices = [int(x) for x in open(os.environ['VERIF_INDICES_FILE']).read().split()]
    eng = registry.engine_for(prop)
    # a worker that has grown too large (numba keeps every lookup function it ever compiled) replaces itself by a fresh interpreter and
    # continues with the next index: outcomes depend on the run index only, so this cannot change them
    start_pos = int(os.environ.get('VERIF_START_POS', '0'))
    t0 = float(os.environ.get('VERIF_T0', time.time()))
    nviol = int(os.environ.get('VERIF_NVIOL', '0'))
    rss_limit = int(os.environ.get('VERIF_WORKER_RSS_MB', '1600'))
    with open(out, 'a' if start_pos else 'w') as fh:
        it = list(indices) if indices is not None else list(range(k, n, W))
        for pos, i in enumerate(it):
            if pos < start_pos:
                continue
            if pos > start_pos and pos % 20 == 0 and rss_mb() > rss_limit:
                fh.flush()
                os.environ.update({'VERIF_START_POS': str(pos), 'VERIF_T0': repr(t0), 'VERIF_NVIOL': str(nviol)})
                faulthandler.cancel_dump_traceback_later()
                os.execv(sys.executable, [sys.executable] + sys.argv)
            if time.time() - t0 > cap:
                fh.write(json.dumps({'truncated_at': i}) + '\n')
                break
            faulthandler.dump_traceback_later(RUN_TIMEOUT, exit=True)
            if os.environ.get('VERIF_TEST_CRASH_AT') == str(i) and indices is None:
                os._exit(3)             # self-test of the runner's retry path
            seed = rng.run_seed(vseed, prop, i)
            rec = {'i': i, 'seed': seed}
            try:
                scn = eng.generate(prop, seed, tier)
                if i in (0, 1, n // 2, n // 2 + 1, n - 1):
                    rec['summary'] = eng.summary(scn)      # written-out sample cases for the evidence file
                o = eng.execute(scn)
                rec.update(o)
                if os.environ.get('VERIF_REPEAT'):
                    # determinism self-test: same seed again in the same (now warm) process
                    o2 = eng.execute(eng.generate(prop, seed, tier))
                    rec['digest_again'] = o2.get('digest')
                if o.get('violation'):
                    scn.update(rec.pop('scenario_patch', None) or {})
                    rec['scenario'] = scn
                    nviol += 1
            except Exception as e:  # harness failure, never a violation, never a pass
                import traceback
                rec['harness_error'] = '%s: %s' % (type(e).__name__, e)
                rec['traceback'] = traceback.format_exc()[-3000:]
            faulthandler.cancel_dump_traceback_later()
            fh.write(json.dumps(rec, default=jdefault) + '\n')
            fh.flush()
            if nviol >= 25:
                fh.write(json.dumps({'stopped_after_violations': nviol, 'at': i}) + '\n')
                break
        fh.write(json.dumps({'done': True, 'k': k, 'wall': time.time() - t0}) + '\n')


def cmd_exec(argv):
    scn = json.load(open(argv[0]))
    if 'scenario' in scn:
        scn = scn['scenario']
    eng = registry.engine_for(scn['prop'])
    faulthandler.dump_traceback_later(RUN_TIMEOUT, exit=True)
    o = eng.execute(scn)
    print(json.dumps(o, default=jdefault))


def cmd_shrink(argv):
    from sim import shrink
    rec = json.load(open(argv[0]))
    scn = rec['scenario']
    sig = rec['sig']
    eng = registry.engine_for(scn['prop'])
    faulthandler.dump_traceback_later(900, exit=True)
    best, stats = shrink.minimise(eng, scn, sig, budget=int(os.environ.get('VERIF_SHRINK_BUDGET', '300')),
                                  wall=float(os.environ.get('VERIF_SHRINK_WALL', '60')))
    o = eng.execute(best)
    json.dump({'scenario': best, 'outcome': o, 'stats': stats}, open(argv[1], 'w'), default=jdefault, indent=1)


if __name__ == '__main__':
    faulthandler.enable()
    {'run': cmd_run, 'exec': cmd_exec, 'shrink': cmd_shrink}[sys.argv[1]](sys.argv[2:])
